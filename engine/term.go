package main

// Term AST for QF_BV + Bool with constant folding, a concrete evaluator and
// an SMT-LIB2 printer that names every interior node once (DAG-linear output).

import (
	"fmt"
	"math/bits"
	"sync/atomic"
	"strings"
)

type Op uint8

const (
	OConst Op = iota
	OVar
	OAdd
	OSub
	OMul
	OUDiv
	OURem
	OSDiv
	OSRem
	OAnd
	OOr
	OXor
	ONot
	ONeg
	OShl
	OLShr
	OAShr
	OConcat
	OExtract // a=hi b=lo
	OZExt    // to width w
	OSExt
	OIte
	// bool-valued
	OEq
	OUlt
	OUle
	OSlt
	OSle
	OBAnd
	OBOr
	OBNot
)

var opNames = map[Op]string{OAdd: "bvadd", OSub: "bvsub", OMul: "bvmul", OUDiv: "bvudiv", OURem: "bvurem", OSDiv: "bvsdiv", OSRem: "bvsrem",
	OAnd: "bvand", OOr: "bvor", OXor: "bvxor", ONot: "bvnot", ONeg: "bvneg", OShl: "bvshl", OLShr: "bvlshr", OAShr: "bvashr", OConcat: "concat",
	OIte: "ite", OEq: "=", OUlt: "bvult", OUle: "bvule", OSlt: "bvslt", OSle: "bvsle", OBAnd: "and", OBOr: "or", OBNot: "not"}

// Term: W==0 means Bool sort; otherwise BitVec W (1..64).
type Term struct {
	Op   Op
	W    int
	Val  uint64 // const value (masked) / bool 0,1
	Name string // var
	A    []*Term
	Hi   int // extract
	Lo   int
	id   int64
}

var termSeq int64 // only for ids; races are harmless but we keep per-process atomicity via workers owning terms

func nextID() int64 { return atomic.AddInt64(&termSeq, 1) }

func mask(w int) uint64 {
	if w >= 64 {
		return ^uint64(0)
	}
	return (uint64(1) << uint(w)) - 1
}

func (t *Term) IsConst() bool { return t.Op == OConst }
func (t *Term) IsBool() bool  { return t.W == 0 }

type TermFactory struct{ seq int64 }

var (
	tTrue  = &Term{Op: OConst, W: 0, Val: 1, id: -1}
	tFalse = &Term{Op: OConst, W: 0, Val: 0, id: -2}
)

func mk(op Op, w int, a ...*Term) *Term { return &Term{Op: op, W: w, A: a, id: nextID()} }

func BV(w int, v uint64) *Term { return &Term{Op: OConst, W: w, Val: v & mask(w), id: nextID()} }
func BoolT(b bool) *Term {
	if b {
		return tTrue
	}
	return tFalse
}
func Var(name string, w int) *Term { return &Term{Op: OVar, W: w, Name: name, id: nextID()} }

func sx(v uint64, w int) int64 {
	if w >= 64 {
		return int64(v)
	}
	if v&(1<<uint(w-1)) != 0 {
		return int64(v | ^mask(w))
	}
	return int64(v)
}

func evalBin(op Op, w int, a, b uint64) uint64 {
	switch op {
	case OAdd:
		return (a + b) & mask(w)
	case OSub:
		return (a - b) & mask(w)
	case OMul:
		return (a * b) & mask(w)
	case OUDiv:
		if b == 0 {
			return mask(w)
		}
		return a / b
	case OURem:
		if b == 0 {
			return a
		}
		return a % b
	case OSDiv:
		if b == 0 {
			if sx(a, w) < 0 {
				return 1
			}
			return mask(w)
		}
		sa, sb := sx(a, w), sx(b, w)
		if sb == -1 {
			return uint64(-sa) & mask(w)
		}
		return uint64(sa/sb) & mask(w)
	case OSRem:
		if b == 0 {
			return a
		}
		sa, sb := sx(a, w), sx(b, w)
		if sb == -1 {
			return 0
		}
		return uint64(sa%sb) & mask(w)
	case OAnd:
		return a & b
	case OOr:
		return a | b
	case OXor:
		return a ^ b
	case OShl:
		if b >= uint64(w) {
			return 0
		}
		return (a << b) & mask(w)
	case OLShr:
		if b >= uint64(w) {
			return 0
		}
		return a >> b
	case OAShr:
		sa := sx(a, w)
		if b >= uint64(w) {
			if sa < 0 {
				return mask(w)
			}
			return 0
		}
		return uint64(sa>>b) & mask(w)
	}
	panic("evalBin")
}

func evalCmp(op Op, w int, a, b uint64) bool {
	switch op {
	case OEq:
		return a == b
	case OUlt:
		return a < b
	case OUle:
		return a <= b
	case OSlt:
		return sx(a, w) < sx(b, w)
	case OSle:
		return sx(a, w) <= sx(b, w)
	}
	panic("evalCmp")
}

func Bin(op Op, a, b *Term) *Term {
	if a.W != b.W {
		panic(fmt.Sprintf("Bin width mismatch %d %d op %v", a.W, b.W, opNames[op]))
	}
	w := a.W
	if a.IsConst() && b.IsConst() {
		return BV(w, evalBin(op, w, a.Val, b.Val))
	}
	switch op {
	case OAdd, OOr, OXor:
		if a.IsConst() && a.Val == 0 {
			return b
		}
		if b.IsConst() && b.Val == 0 {
			return a
		}
	case OSub, OShl, OLShr, OAShr:
		if b.IsConst() && b.Val == 0 {
			return a
		}
	case OMul:
		if a.IsConst() && a.Val == 1 {
			return b
		}
		if b.IsConst() && b.Val == 1 {
			return a
		}
		if (a.IsConst() && a.Val == 0) || (b.IsConst() && b.Val == 0) {
			return BV(w, 0)
		}
	case OAnd:
		if (a.IsConst() && a.Val == 0) || (b.IsConst() && b.Val == 0) {
			return BV(w, 0)
		}
		if a.IsConst() && a.Val == mask(w) {
			return b
		}
		if b.IsConst() && b.Val == mask(w) {
			return a
		}
	case OUDiv, OSDiv:
		if b.IsConst() && b.Val == 1 {
			return a
		}
	}
	if op == OSub && a == b {
		return BV(w, 0)
	}
	if op == OAdd {
		// reassociate constants: (x + c1) + c2 = x + (c1+c2) (modular arithmetic, always sound)
		if a.IsConst() {
			a, b = b, a
		}
		if b.IsConst() && a.Op == OAdd && len(a.A) == 2 && a.A[1].IsConst() {
			return Bin(OAdd, a.A[0], BV(w, evalBin(OAdd, w, a.A[1].Val, b.Val)))
		}
	}
	return mk(op, w, a, b)
}

func Cmp(op Op, a, b *Term) *Term {
	if a.W != b.W {
		panic(fmt.Sprintf("Cmp width mismatch %d %d", a.W, b.W))
	}
	if a.W == 0 { // bool equality
		if op != OEq {
			panic("bool cmp")
		}
		if a.IsConst() {
			if a.Val == 1 {
				return b
			}
			return Not(b)
		}
		if b.IsConst() {
			if b.Val == 1 {
				return a
			}
			return Not(a)
		}
		if a == b {
			return tTrue
		}
		return mk(OEq, 0, a, b)
	}
	if a.IsConst() && b.IsConst() {
		return BoolT(evalCmp(op, a.W, a.Val, b.Val))
	}
	if a == b {
		switch op {
		case OEq, OUle, OSle:
			return tTrue
		default:
			return tFalse
		}
	}
	// zext(x) == const out of range etc. — light simplification for byte compares
	if op == OEq {
		if a.IsConst() && b.Op == OZExt {
			a, b = b, a
		}
		if a.Op == OZExt && b.IsConst() {
			inner := a.A[0]
			if b.Val > mask(inner.W) {
				return tFalse
			}
			return Cmp(OEq, inner, BV(inner.W, b.Val))
		}
	}
	return mk(op, 0, a, b)
}

func Not(a *Term) *Term {
	if a.W != 0 {
		panic("Not on bv")
	}
	if a.IsConst() {
		return BoolT(a.Val == 0)
	}
	if a.Op == OBNot {
		return a.A[0]
	}
	return mk(OBNot, 0, a)
}

func And(a, b *Term) *Term {
	if a.IsConst() {
		if a.Val == 1 {
			return b
		}
		return tFalse
	}
	if b.IsConst() {
		if b.Val == 1 {
			return a
		}
		return tFalse
	}
	if a == b {
		return a
	}
	return mk(OBAnd, 0, a, b)
}

func Or(a, b *Term) *Term {
	if a.IsConst() {
		if a.Val == 1 {
			return tTrue
		}
		return b
	}
	if b.IsConst() {
		if b.Val == 1 {
			return tTrue
		}
		return a
	}
	if a == b {
		return a
	}
	return mk(OBOr, 0, a, b)
}

func Ite(c, a, b *Term) *Term {
	if c.IsConst() {
		if c.Val == 1 {
			return a
		}
		return b
	}
	if a == b {
		return a
	}
	if a.W != b.W {
		panic("Ite width")
	}
	if a.W == 0 && a.IsConst() && b.IsConst() {
		if a.Val == 1 && b.Val == 0 {
			return c
		}
		if a.Val == 0 && b.Val == 1 {
			return Not(c)
		}
	}
	return mk(OIte, a.W, c, a, b)
}

func BvNot(a *Term) *Term {
	if a.IsConst() {
		return BV(a.W, ^a.Val)
	}
	return mk(ONot, a.W, a)
}

func Neg(a *Term) *Term {
	if a.IsConst() {
		return BV(a.W, -a.Val)
	}
	return mk(ONeg, a.W, a)
}

func Extract(a *Term, hi, lo int) *Term {
	w := hi - lo + 1
	if lo == 0 && w == a.W {
		return a
	}
	if a.IsConst() {
		return BV(w, a.Val>>uint(lo))
	}
	if (a.Op == OZExt || a.Op == OSExt) && hi < a.A[0].W {
		return Extract(a.A[0], hi, lo)
	}
	if a.Op == OZExt && lo >= a.A[0].W {
		return BV(w, 0)
	}
	if a.Op == OConcat {
		lw := a.A[1].W
		if hi < lw {
			return Extract(a.A[1], hi, lo)
		}
		if lo >= lw {
			return Extract(a.A[0], hi-lw, lo-lw)
		}
	}
	t := mk(OExtract, w, a)
	t.Hi, t.Lo = hi, lo
	return t
}

func ZExt(a *Term, w int) *Term {
	if w == a.W {
		return a
	}
	if w < a.W {
		return Extract(a, w-1, 0)
	}
	if a.IsConst() {
		return BV(w, a.Val)
	}
	if a.Op == OZExt {
		return ZExt(a.A[0], w)
	}
	return mk(OZExt, w, a)
}

func SExt(a *Term, w int) *Term {
	if w == a.W {
		return a
	}
	if w < a.W {
		return Extract(a, w-1, 0)
	}
	if a.IsConst() {
		return BV(w, uint64(sx(a.Val, a.W)))
	}
	return mk(OSExt, w, a)
}

func Concat(hi, lo *Term) *Term {
	w := hi.W + lo.W
	if hi.IsConst() && lo.IsConst() {
		return BV(w, hi.Val<<uint(lo.W)|lo.Val)
	}
	if hi.IsConst() && hi.Val == 0 {
		return ZExt(lo, w)
	}
	return mk(OConcat, w, hi, lo)
}

// Eval evaluates under a model (missing vars = 0).
func (t *Term) Eval(m map[string]uint64, memo map[*Term]uint64) uint64 {
	if t.Op == OConst {
		return t.Val
	}
	if v, ok := memo[t]; ok {
		return v
	}
	var r uint64
	switch t.Op {
	case OVar:
		r = m[t.Name] & maskB(t.W)
	case OAdd, OSub, OMul, OUDiv, OURem, OSDiv, OSRem, OAnd, OOr, OXor, OShl, OLShr, OAShr:
		r = evalBin(t.Op, t.W, t.A[0].Eval(m, memo), t.A[1].Eval(m, memo))
	case ONot:
		r = ^t.A[0].Eval(m, memo) & mask(t.W)
	case ONeg:
		r = -t.A[0].Eval(m, memo) & mask(t.W)
	case OConcat:
		r = t.A[0].Eval(m, memo)<<uint(t.A[1].W) | t.A[1].Eval(m, memo)
	case OExtract:
		r = (t.A[0].Eval(m, memo) >> uint(t.Lo)) & mask(t.W)
	case OZExt:
		r = t.A[0].Eval(m, memo)
	case OSExt:
		r = uint64(sx(t.A[0].Eval(m, memo), t.A[0].W)) & mask(t.W)
	case OIte:
		if t.A[0].Eval(m, memo) != 0 {
			r = t.A[1].Eval(m, memo)
		} else {
			r = t.A[2].Eval(m, memo)
		}
	case OEq, OUlt, OUle, OSlt, OSle:
		if t.A[0].W == 0 {
			r = b2u(t.A[0].Eval(m, memo) == t.A[1].Eval(m, memo))
		} else {
			r = b2u(evalCmp(t.Op, t.A[0].W, t.A[0].Eval(m, memo), t.A[1].Eval(m, memo)))
		}
	case OBAnd:
		r = b2u(t.A[0].Eval(m, memo) != 0 && t.A[1].Eval(m, memo) != 0)
	case OBOr:
		r = b2u(t.A[0].Eval(m, memo) != 0 || t.A[1].Eval(m, memo) != 0)
	case OBNot:
		r = b2u(t.A[0].Eval(m, memo) == 0)
	default:
		panic("Eval: op")
	}
	memo[t] = r
	return r
}

func maskB(w int) uint64 {
	if w == 0 {
		return 1
	}
	return mask(w)
}

func b2u(b bool) uint64 {
	if b {
		return 1
	}
	return 0
}

func sortOf(w int) string {
	if w == 0 {
		return "Bool"
	}
	return fmt.Sprintf("(_ BitVec %d)", w)
}

func constStr(t *Term) string {
	if t.W == 0 {
		if t.Val != 0 {
			return "true"
		}
		return "false"
	}
	if t.W%4 == 0 {
		return fmt.Sprintf("#x%0*x", t.W/4, t.Val)
	}
	return fmt.Sprintf("(_ bv%d %d)", t.Val, t.W)
}

// emitter prints terms, naming interior nodes with define-fun.
type emitter struct {
	defined map[int64]bool
	sb      *strings.Builder
}

func (e *emitter) ref(t *Term) string {
	switch t.Op {
	case OConst:
		return constStr(t)
	case OVar:
		return t.Name
	}
	return fmt.Sprintf("n%d", t.id)
}

// define ensures t and its sub-DAG are defined; returns reference.
func (e *emitter) define(t *Term) string {
	if t.Op == OConst || t.Op == OVar {
		return e.ref(t)
	}
	if e.defined[t.id] {
		return e.ref(t)
	}
	// iterative post-order to avoid deep recursion
	type fr struct {
		t *Term
		i int
	}
	stack := []fr{{t, 0}}
	for len(stack) > 0 {
		top := &stack[len(stack)-1]
		if top.i < len(top.t.A) {
			c := top.t.A[top.i]
			top.i++
			if c.Op != OConst && c.Op != OVar && !e.defined[c.id] {
				stack = append(stack, fr{c, 0})
			}
			continue
		}
		n := top.t
		stack = stack[:len(stack)-1]
		if e.defined[n.id] {
			continue
		}
		e.defined[n.id] = true
		var body string
		switch n.Op {
		case OExtract:
			body = fmt.Sprintf("((_ extract %d %d) %s)", n.Hi, n.Lo, e.ref(n.A[0]))
		case OZExt:
			body = fmt.Sprintf("((_ zero_extend %d) %s)", n.W-n.A[0].W, e.ref(n.A[0]))
		case OSExt:
			body = fmt.Sprintf("((_ sign_extend %d) %s)", n.W-n.A[0].W, e.ref(n.A[0]))
		default:
			parts := make([]string, 0, 4)
			parts = append(parts, opNames[n.Op])
			for _, a := range n.A {
				parts = append(parts, e.ref(a))
			}
			body = "(" + strings.Join(parts, " ") + ")"
		}
		fmt.Fprintf(e.sb, "(define-fun n%d () %s %s)\n", n.id, sortOf(n.W), body)
	}
	return e.ref(t)
}

func (t *Term) String() string {
	switch t.Op {
	case OConst:
		return constStr(t)
	case OVar:
		return t.Name
	case OExtract:
		return fmt.Sprintf("(extract[%d:%d] %s)", t.Hi, t.Lo, t.A[0])
	}
	parts := []string{opNames[t.Op]}
	if t.Op == OZExt {
		parts[0] = fmt.Sprintf("zext%d", t.W)
	}
	if t.Op == OSExt {
		parts[0] = fmt.Sprintf("sext%d", t.W)
	}
	for _, a := range t.A {
		parts = append(parts, a.String())
	}
	s := "(" + strings.Join(parts, " ") + ")"
	if len(s) > 400 {
		s = s[:400] + "…"
	}
	return s
}

var _ = bits.Len
