#!/usr/bin/env python3
"""run_patch_all.py <patch.diff> [tier] [props...] — applies a patch to /repo, runs every claimed check (or the
listed ones), undoes the patch, prints one line per property. Used for false-alarm testing with
behaviour-preserving refactors."""
import json, os, subprocess, sys
patch = sys.argv[1]
tier = sys.argv[2] if len(sys.argv) > 2 else "quick"
props = sys.argv[3:] or [c["property_id"] for c in json.load(open("/verif/MANIFEST.json"))["checks"]]
assert subprocess.run("git -C /repo status --porcelain", shell=True, capture_output=True, text=True).stdout.strip() == "", "/repo not clean"
subprocess.run("git -C /repo apply --whitespace=nowarn %s" % patch, shell=True, check=True)
out = {}
try:
    for p in props:
        r = subprocess.run(["/verif/check", p, tier], cwd="/verif", capture_output=True, text=True)
        lines = [l for l in r.stdout.splitlines() if l.startswith(("VIOLATION", "  detail", "INCONCLUSIVE"))]
        out[p] = {"exit": r.returncode, "lines": lines[:6]}
        print(p, "exit", r.returncode, flush=True)
        for l in lines[:6]:
            print("    ", l[:260], flush=True)
finally:
    subprocess.run("git -C /repo checkout -- .", shell=True, check=True)
json.dump(out, open("/var/tmp/run_patch_all_last.json", "w"), indent=1)
