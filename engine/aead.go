package main

// Ideal-primitive stubs reached through interface values of synthetic marker types:
//   AES-GCM  : Seal = fresh ciphertext recorded with (key, nonce, plaintext, ad);
//              Open succeeds iff all four match a record (outsider mode), and in
//              tamper mode may additionally "succeed" with an arbitrary plaintext.
//   crypto/rand.Reader : fresh symbolic bytes.
//   compress/lzw : Writer.Close emits a fresh token registered as compressing the input;
//              Reader yields the registered input, otherwise error-or-short-arbitrary bytes.

import (
	"fmt"
	"go/token"
	"go/types"

	"golang.org/x/tools/go/ssa"
)

func markerType(name string) *types.Named {
	return types.NewNamed(types.NewTypeName(token.NoPos, nil, name, nil), types.NewStruct(nil, nil), nil)
}

var (
	mkBlock  = markerType("symgoAESBlock")
	mkAEAD   = markerType("symgoAEAD")
	mkRand   = markerType("symgoRandReader")
	mkLzwW   = markerType("symgoLzwWriter")
	mkLzwR   = markerType("symgoLzwReader")
)

// poisonByte marks storage overwritten by a failed AEAD.Open whose dst aliased the ciphertext.
var poisonByte = Var("poison_byte", 8)

type markerCall struct {
	kind   string
	method string
}

type sealRecT struct {
	key, nonce, pt, ad, ct []*Term
}

type lzwRec struct {
	tok, orig []*Term
}

func termsEq(a, b []*Term) *Term {
	if len(a) != len(b) {
		return tFalse
	}
	r := tTrue
	for i := range a {
		r = And(r, Cmp(OEq, a[i], b[i]))
		if r == tFalse {
			return r
		}
	}
	return r
}

// markerMethod resolves an interface invoke on one of the marker types.
func markerMethod(t types.Type, method string) *markerCall {
	switch t {
	case mkAEAD:
		return &markerCall{"aead", method}
	case mkRand:
		return &markerCall{"rand", method}
	case mkLzwW:
		return &markerCall{"lzww", method}
	case mkLzwR:
		return &markerCall{"lzwr", method}
	case mkBlock:
		return &markerCall{"block", method}
	}
	return nil
}

func (p *Path) callMarker(th *thread, caller *frame, pos token.Pos, mc *markerCall, args []Value) Value {
	self := args[0].(*Value)
	st := (*self).(StructVal)
	switch mc.kind + "." + mc.method {
	case "aead.NonceSize":
		return BV(64, 12)
	case "aead.Overhead":
		return BV(64, 16)
	case "aead.Seal":
		key := bytesOf(st[0])
		nonce, pt, ad := bytesOf(args[2]), bytesOf(args[3]), bytesOf(args[4])
		p.sealSeq++
		ct := make([]*Term, len(pt)+16)
		for i := range ct {
			ct[i] = Var(fmt.Sprintf("ct%d_%d", p.sealSeq, i), 8)
		}
		// ideal model: independently produced ciphertexts never coincide (a collision of two 96-bit random nonces
		// and 128-bit tags is the only way for them to)
		for _, prev := range p.sealsT {
			if len(prev.ct) == len(ct) {
				p.addPC(Not(termsEq(prev.ct, ct)))
			}
		}
		p.setModel(nil)
		p.sealsT = append(p.sealsT, &sealRecT{key: key, nonce: nonce, pt: pt, ad: ad, ct: ct})
		p.note("stub: AES-GCM = ideal AEAD (Seal: fresh ciphertext of len+16 recorded with key/nonce/plaintext/ad; Open: succeeds iff all match a record" + map[bool]string{true: ", or in tamper mode with an arbitrary plaintext)", false: ")"}[p.aeadTamper])
		dst := bytesOf(args[1])
		return mkByteSlice(append(append([]*Term{}, dst...), ct...))
	case "aead.Open":
		key := bytesOf(st[0])
		nonce, ct, ad := bytesOf(args[2]), bytesOf(args[3]), bytesOf(args[4])
		if len(ct) < 16 {
			return TupleVal{SliceVal{Nil: true}, p.opaqueErr("cipher: message authentication failed")}
		}
		for _, b := range ct {
			if b == poisonByte {
				// a ciphertext overwritten by an earlier failed Open never authenticates (ideal model)
				return TupleVal{SliceVal{Nil: true}, p.opaqueErr("cipher: message authentication failed")}
			}
		}
		for _, r := range p.sealsT {
			if len(r.ct) != len(ct) {
				continue
			}
			c := And(And(termsEq(r.key, key), termsEq(r.nonce, nonce)), And(termsEq(r.ct, ct), termsEq(r.ad, ad)))
			if p.branch(c) {
				p.cover("engine.aead.open.genuine")
				return TupleVal{mkByteSlice(append([]*Term{}, r.pt...)), IfaceVal{}}
			}
		}
		// documented contract of cipher.AEAD.Open: "Even if the function fails, the contents of dst, up to its
		// capacity, may be overwritten" - when dst reuses the ciphertext's storage the ciphertext is destroyed
		if dsl, ok := args[1].(SliceVal); ok && !dsl.Nil && len(dsl.Back) > 0 {
			csl := args[3].(SliceVal)
			if len(csl.Back) > 0 && &dsl.Back[0] == &csl.Back[0] {
				for i := 0; i < len(dsl.Back); i++ {
					dsl.Back[i] = poisonByte
				}
				p.note("stub: a failed AEAD.Open overwrites dst (documented); dst aliased the ciphertext here")
			}
		}
		if p.aeadTamper && p.choose(2) == 1 {
			pt := make([]*Term, len(ct)-16)
			for i := range pt {
				pt[i] = p.input("u8", 8)
			}
			if p.forgedFirst > 0 && len(pt) > 0 {
				// decomposition: the crypto layer is explored with a forged plaintext whose first byte is a
				// fixed (unsupported) message kind; arbitrary plaintext contents are explored without encryption
				p.addPC(Cmp(OEq, pt[0], BV(8, uint64(p.forgedFirst))))
				p.setModel(nil)
			}
			p.cover("engine.aead.open.forged")
			p.hostile("forged-plaintext")
			return TupleVal{mkByteSlice(pt), IfaceVal{}}
		}
		return TupleVal{SliceVal{Nil: true}, p.opaqueErr("cipher: message authentication failed")}
	case "rand.Read":
		buf := args[1].(SliceVal)
		for i := 0; i < buf.N; i++ {
			p.rndSeq++
			buf.Back[i] = Var(fmt.Sprintf("rnd%d", p.rndSeq), 8)
		}
		p.note("stub: crypto/rand.Reader = fresh unconstrained bytes")
		return TupleVal{BV(64, uint64(buf.N)), IfaceVal{}}
	case "lzww.Write":
		in := bytesOf(args[1])
		st[1] = mkByteSlice(append(bytesOf(st[1]), in...))
		return TupleVal{BV(64, uint64(len(in))), IfaceVal{}}
	case "lzww.Close":
		orig := bytesOf(st[1])
		p.lzwSeq++
		n := 2
		if p.lzwSizes {
			// size-aware model (opt-in): the compressed length is any of a few classes around the input length -
			// far smaller, smaller by more / exactly / less than the 16 bytes a compress{} wrapper costs, equal, larger
			in := len(orig)
			var cls []int
			for _, c := range []int{2, in - 17, in - 16, in - 10, in - 1, in, in + 4} {
				if c < 2 {
					continue
				}
				dup := false
				for _, x := range cls {
					dup = dup || x == c
				}
				if !dup {
					cls = append(cls, c)
				}
			}
			n = cls[p.choose(len(cls))]
			p.note("stub: compress/lzw size-aware model: compressed length in {2, n-17, n-16, n-10, n-1, n, n+4} for an n-byte input")
		}
		tok := make([]*Term, n)
		for i := range tok {
			tok[i] = Var(fmt.Sprintf("lzw%d_%d", p.lzwSeq, i), 8)
		}
		p.lzws = append(p.lzws, &lzwRec{tok: tok, orig: orig})
		p.note("stub: compress/lzw = token model (Close emits a fresh 2-byte token registered as the input; reading a registered token yields the input, anything else error or <=2 arbitrary bytes)")
		w := st[0].(IfaceVal)
		r := p.ifaceCall(th, caller, pos, w, "Write", mkByteSlice(tok)).(TupleVal)
		return r[1]
	case "lzwr.Close":
		return IfaceVal{}
	case "lzwr.Read":
		// st: [0] underlying reader, [1] pending output ([]byte), [2] state: 0 fresh, 1 serving, 2 error
		state := st[2].(*Term).Val
		if state == 0 {
			// drain the underlying reader
			var all []*Term
			for guard := 0; guard < 64; guard++ {
				tmp := make([]*Term, 64)
				for i := range tmp {
					tmp[i] = BV(8, 0)
				}
				sl := mkByteSlice(tmp)
				res := p.ifaceCall(th, caller, pos, st[0].(IfaceVal), "Read", sl).(TupleVal)
				n := int(p.concretize(res[0].(*Term), "lzw read"))
				for i := 0; i < n; i++ {
					all = append(all, sl.Back[i].(*Term))
				}
				if e := res[1].(IfaceVal); e.T != nil || n == 0 {
					break
				}
			}
			var out []*Term
			found := false
			for _, r := range p.lzws {
				if len(r.tok) == len(all) {
					same := true
					for i := range all {
						if all[i] != r.tok[i] {
							same = false
						}
					}
					if same {
						out, found = append([]*Term{}, r.orig...), true
						break
					}
				}
			}
			if !found {
				switch p.choose(3) {
				case 0:
					st[2] = BV(8, 2)
					return TupleVal{BV(64, 0), p.opaqueErr("lzw: invalid code")}
				case 1:
					out = nil
				case 2:
					n := 1 + p.choose(2)
					for i := 0; i < n; i++ {
						out = append(out, p.input("u8", 8))
					}
				}
				p.cover("engine.lzw.hostile")
				if st[2].(*Term).Val != 2 {
					p.hostile("lzw")
				}
			}
			st[1] = mkByteSlice(out)
			st[2] = BV(8, 1)
		} else if state == 2 {
			return TupleVal{BV(64, 0), p.opaqueErr("lzw: invalid code")}
		}
		pend := bytesOf(st[1])
		dst := args[1].(SliceVal)
		if len(pend) == 0 {
			return TupleVal{BV(64, 0), p.ioEOF()}
		}
		n := len(pend)
		if n > dst.N {
			n = dst.N
		}
		for i := 0; i < n; i++ {
			dst.Back[i] = pend[i]
		}
		st[1] = mkByteSlice(pend[n:])
		return TupleVal{BV(64, uint64(n)), IfaceVal{}}
	}
	unsup("marker method %s.%s", mc.kind, mc.method)
	return nil
}

func (p *Path) ioEOF() Value {
	for _, sp := range p.ex.prog.AllPackages() {
		if sp.Pkg.Path() == "io" {
			g := sp.Var("EOF")
			return *p.global(g)
		}
	}
	panic("io.EOF not found")
}

func markerCell(fields ...Value) *Value {
	c := new(Value)
	*c = StructVal(fields)
	return c
}

func init() {
	reg("crypto/aes.NewCipher", func(p *Path, th *thread, caller *frame, pos token.Pos, fn *ssa.Function, args []Value) Value {
		key := args[0].(SliceVal)
		if key.N != 16 && key.N != 24 && key.N != 32 {
			return TupleVal{IfaceVal{}, p.opaqueErr("crypto/aes: invalid key size")}
		}
		return TupleVal{IfaceVal{T: mkBlock, V: markerCell(mkByteSlice(bytesOf(key)))}, IfaceVal{}}
	})
	reg("crypto/cipher.NewGCM", func(p *Path, th *thread, caller *frame, pos token.Pos, fn *ssa.Function, args []Value) Value {
		b := args[0].(IfaceVal)
		if b.T != mkBlock {
			unsup("NewGCM on a non-stub block")
		}
		key := (*b.V.(*Value)).(StructVal)[0]
		return TupleVal{IfaceVal{T: mkAEAD, V: markerCell(key)}, IfaceVal{}}
	})
	reg("compress/lzw.NewWriter", func(p *Path, th *thread, caller *frame, pos token.Pos, fn *ssa.Function, args []Value) Value {
		return IfaceVal{T: mkLzwW, V: markerCell(args[0], SliceVal{Nil: true})}
	})
	reg("compress/lzw.NewReader", func(p *Path, th *thread, caller *frame, pos token.Pos, fn *ssa.Function, args []Value) Value {
		return IfaceVal{T: mkLzwR, V: markerCell(args[0], SliceVal{Nil: true}, BV(8, 0))}
	})
}

func init() {
	// vIsSealed(buf, key, ad): buf is [version][nonce(12)][ciphertext] of a recorded Seal under key with ad.
	vreg("vIsSealed", func(p *Path, th *thread, caller *frame, pos token.Pos, fn *ssa.Function, args []Value) Value {
		buf, key, ad := bytesOf(args[0]), bytesOf(args[1]), bytesOf(args[2])
		if len(buf) < 1+12+16 {
			return tFalse
		}
		r := tFalse
		for _, s := range p.sealsT {
			if len(s.ct) != len(buf)-13 {
				continue
			}
			r = Or(r, And(And(termsEq(s.key, key), termsEq(s.ad, ad)), And(termsEq(s.nonce, buf[1:13]), termsEq(s.ct, buf[13:]))))
		}
		return r
	})
}
