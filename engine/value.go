package main

import (
	"fmt"
	"go/types"

	"golang.org/x/tools/go/ssa"
)

// Value kinds:
//   *Term                  ints (W>0) and bools (W==0)
//   FloatVal               floats (concrete or havoc)
//   *StrVal                strings
//   SliceVal               slices
//   StructVal / ArrayVal   aggregates (copied on load/store)
//   *Value                 pointers (nil pointer = (*Value)(nil))
//   *MapObj                maps (nil map = (*MapObj)(nil))
//   *ChanObj               channels
//   *ssa.Function, *Closure, *ssa.Builtin, FuncNil
//   IfaceVal               interfaces
//   TupleVal               multi-results
type Value interface{}

type FloatVal struct {
	F   float64
	Sym bool
}

type StrVal struct {
	S   string  // when Sym == nil
	Sym []*Term // 8-bit terms when any byte is symbolic
}

func (s *StrVal) Len() int {
	if s.Sym != nil {
		return len(s.Sym)
	}
	return len(s.S)
}
func (s *StrVal) At(i int) *Term {
	if s.Sym != nil {
		return s.Sym[i]
	}
	return BV(8, uint64(s.S[i]))
}
func (s *StrVal) Concrete() (string, bool) {
	if s.Sym == nil {
		return s.S, true
	}
	b := make([]byte, len(s.Sym))
	for i, t := range s.Sym {
		if !t.IsConst() {
			return "", false
		}
		b[i] = byte(t.Val)
	}
	return string(b), true
}
func mkStr(s string) *StrVal { return &StrVal{S: s} }
func mkStrTerms(ts []*Term) *StrVal {
	b := make([]byte, len(ts))
	for i, t := range ts {
		if !t.IsConst() {
			cp := make([]*Term, len(ts))
			copy(cp, ts)
			return &StrVal{Sym: cp}
		}
		b[i] = byte(t.Val)
	}
	return &StrVal{S: string(b)}
}

// SliceVal: Back has length == capacity (from this slice's start); N is len.
type SliceVal struct {
	Back []Value
	N    int
	Nil  bool
}

type StructVal []Value
type ArrayVal []Value
type TupleVal []Value

type IfaceVal struct {
	T types.Type // nil => nil interface
	V Value
}

type Closure struct {
	Fn  *ssa.Function
	Env []Value
}

type FuncNil struct{}

type mapEntry struct {
	K, V Value
}
type MapObj struct {
	E  []mapEntry
	KT types.Type
	VT types.Type
}

type ChanObj struct {
	Buf    []Value
	Cap    int
	Closed bool
	ET     types.Type
	id     int
	// rendezvous for unbuffered channels
	sendq []*chanWaiter
	recvq []*chanWaiter
}

type chanWaiter struct {
	th  *thread
	val Value
	ok  bool
	done bool
	sel  *selWait
	idx  int
}

type selWait struct {
	chosen int
	val    Value
	ok     bool
	done   bool
}

func intInfo(t types.Type) (w int, signed bool, ok bool) {
	b, isb := t.Underlying().(*types.Basic)
	if !isb {
		return 0, false, false
	}
	switch b.Kind() {
	case types.Bool, types.UntypedBool:
		return 0, false, true
	case types.Int8:
		return 8, true, true
	case types.Int16:
		return 16, true, true
	case types.Int32, types.UntypedRune:
		return 32, true, true
	case types.Int, types.Int64, types.UntypedInt:
		return 64, true, true
	case types.Uint8:
		return 8, false, true
	case types.Uint16:
		return 16, false, true
	case types.Uint32:
		return 32, false, true
	case types.Uint, types.Uint64, types.Uintptr:
		return 64, false, true
	}
	return 0, false, false
}

func isFloat(t types.Type) bool {
	b, ok := t.Underlying().(*types.Basic)
	return ok && b.Info()&types.IsFloat != 0
}
func isString(t types.Type) bool {
	b, ok := t.Underlying().(*types.Basic)
	return ok && b.Info()&types.IsString != 0
}

func zero(t types.Type) Value {
	switch u := t.Underlying().(type) {
	case *types.Basic:
		if w, _, ok := intInfo(t); ok {
			if w == 0 {
				return tFalse
			}
			return BV(w, 0)
		}
		if u.Info()&types.IsFloat != 0 {
			return FloatVal{}
		}
		if u.Info()&types.IsString != 0 {
			return mkStr("")
		}
		if u.Kind() == types.UnsafePointer {
			return (*Value)(nil)
		}
		if u.Kind() == types.UntypedNil {
			return nil
		}
		panic(fmt.Sprintf("zero: basic %v", u))
	case *types.Struct:
		s := make(StructVal, u.NumFields())
		for i := range s {
			s[i] = zero(u.Field(i).Type())
		}
		return s
	case *types.Array:
		a := make(ArrayVal, u.Len())
		for i := range a {
			a[i] = zero(u.Elem())
		}
		return a
	case *types.Pointer:
		return (*Value)(nil)
	case *types.Slice:
		return SliceVal{Nil: true}
	case *types.Map:
		return (*MapObj)(nil)
	case *types.Chan:
		return (*ChanObj)(nil)
	case *types.Signature:
		return FuncNil{}
	case *types.Interface:
		return IfaceVal{}
	case *types.Tuple:
		tv := make(TupleVal, u.Len())
		for i := range tv {
			tv[i] = zero(u.At(i).Type())
		}
		return tv
	}
	panic(fmt.Sprintf("zero: unhandled type %v (%T)", t, t.Underlying()))
}

// copyVal deep-copies aggregates (value semantics).
func copyVal(v Value) Value {
	switch x := v.(type) {
	case StructVal:
		c := make(StructVal, len(x))
		for i, f := range x {
			c[i] = copyVal(f)
		}
		return c
	case ArrayVal:
		c := make(ArrayVal, len(x))
		for i, f := range x {
			c[i] = copyVal(f)
		}
		return c
	}
	return v
}

type unsupported struct{ msg string }

func unsup(format string, a ...interface{}) {
	panic(unsupported{fmt.Sprintf(format, a...)})
}
