package main

import (
	"crypto/sha256"
	"encoding/hex"
	"fmt"
	"go/token"
	"go/types"
	"os"
	"runtime/debug"
	"sort"
	"strings"
	"sync"
	"time"

	"golang.org/x/tools/go/ssa"
)

type workItem struct {
	prefix []Decision
}

type worker struct {
	id int
	sv *Solver
}

type Explorer struct {
	prog    *ssa.Program
	mainPkg *ssa.Package
	entry   string
	entryFn *ssa.Function

	errorStringPtr types.Type
	timeType       types.Type
	initPkgs       map[string]bool
	harnessFiles   map[string]bool

	maxSteps      int64
	maxDepth      int
	maxThreads    int
	maxAlloc      int64
	maxConcretize int
	defaultUnwind int
	maxPaths      int
	solverKind    string
	solverTimeout int
	optShuffle    bool
	tier          int
	sizes         types.Sizes
	noMerge       bool

	mu        sync.Mutex
	cond      *sync.Cond
	queue     []workItem
	active    int
	stopped   bool
	res       Result
	vioSeen   map[string]bool
	funcsSeen map[*ssa.Function]bool
	deadline  time.Time
}

type Result struct {
	Entry        string            `json:"entry"`
	Paths        int               `json:"paths"`
	PathsDone    int               `json:"paths_completed"`
	Infeasible   int               `json:"paths_infeasible"`
	Bounded      int               `json:"paths_cut_by_stated_bound"`
	Branches     int               `json:"symbolic_branches"`
	Merges       int               `json:"if_conversions"`
	Steps        int64             `json:"ssa_steps"`
	Obligations  int               `json:"obligations"`
	OblSolver    int               `json:"obligations_solver"`
	OblConcrete  int               `json:"obligations_concrete"`
	Queries      int               `json:"solver_queries"`
	SolverTimeS  float64           `json:"solver_time_s"`
	WallS        float64           `json:"wall_s"`
	Covers       map[string]int    `json:"covers"`
	Violations   []Violation       `json:"violations"`
	Inconclusive []string          `json:"inconclusive"`
	Havocs       map[string]int    `json:"havocs"`
	Notes        []string          `json:"notes"`
	Functions    map[string]string `json:"functions_encoded"`
	Solver       string            `json:"solver"`
	CoverSamples map[string]CoverSample `json:"cover_samples"`
	Bounds       map[string]int64  `json:"bounds"`
}

type CoverSample struct {
	Vec   []uint64 `json:"vec"`
	Kinds []string `json:"kinds"`
}

func (ex *Explorer) push(p *Path, idx int, d Decision) {
	pre := make([]Decision, idx, idx+1)
	copy(pre, p.dec[:idx])
	pre = append(pre, d)
	ex.mu.Lock()
	ex.queue = append(ex.queue, workItem{prefix: pre})
	ex.mu.Unlock()
	ex.cond.Signal()
}

func (ex *Explorer) noteFunc(fn *ssa.Function) {
	ex.mu.Lock()
	ex.funcsSeen[fn] = true
	ex.mu.Unlock()
}

func (ex *Explorer) isHarnessFn(fn *ssa.Function) bool {
	if fn.Pos() == token.NoPos {
		if fn.Parent() != nil {
			return ex.isHarnessFn(fn.Parent())
		}
		return false
	}
	f := ex.prog.Fset.Position(fn.Pos()).Filename
	return strings.Contains(f, "zz_verif_")
}

func (ex *Explorer) implements(t types.Type, it *types.Interface) bool {
	return types.Implements(t, it)
}

func (ex *Explorer) unwindFor(fn *ssa.Function) int { return ex.defaultUnwind }

func (ex *Explorer) Run(nworkers int) *Result {
	t0 := time.Now()
	ex.cond = sync.NewCond(&ex.mu)
	ex.vioSeen = map[string]bool{}
	ex.funcsSeen = map[*ssa.Function]bool{}
	ex.res = Result{Entry: ex.entry, Covers: map[string]int{}, Havocs: map[string]int{}, CoverSamples: map[string]CoverSample{}, Solver: ex.solverKind}
	ex.queue = []workItem{{}}
	var wg sync.WaitGroup
	var solvers []*Solver
	for i := 0; i < nworkers; i++ {
		sv, err := NewSolver(ex.solverKind, ex.solverTimeout)
		if err != nil {
			fmt.Fprintln(os.Stderr, "solver:", err)
			os.Exit(3)
		}
		solvers = append(solvers, sv)
		w := &worker{id: i, sv: sv}
		wg.Add(1)
		go func() {
			defer wg.Done()
			ex.workerLoop(w)
		}()
	}
	wg.Wait()
	for _, sv := range solvers {
		ex.res.Queries += sv.Queries
		ex.res.SolverTimeS += sv.Time.Seconds()
		sv.Close()
	}
	ex.res.WallS = time.Since(t0).Seconds()
	ex.res.Functions = map[string]string{}
	for fn := range ex.funcsSeen {
		if fn.Pkg == ex.mainPkg || (fn.Parent() != nil && ex.isMainPkgFn(fn)) {
			if ex.isHarnessFn(fn) {
				continue
			}
			ex.res.Functions[fn.String()] = ex.srcHash(fn)
		}
	}
	sort.Strings(ex.res.Inconclusive)
	ex.res.Bounds = map[string]int64{"unwind": int64(ex.defaultUnwind), "max_steps": ex.maxSteps, "max_depth": int64(ex.maxDepth), "max_alloc": ex.maxAlloc, "max_concretize": int64(ex.maxConcretize), "max_paths": int64(ex.maxPaths), "solver_timeout_ms": int64(ex.solverTimeout)}
	return &ex.res
}

func (ex *Explorer) isMainPkgFn(fn *ssa.Function) bool {
	for f := fn; f != nil; f = f.Parent() {
		if f.Pkg == ex.mainPkg {
			return true
		}
	}
	return false
}

var srcCache sync.Map

func (ex *Explorer) srcHash(fn *ssa.Function) string {
	if fn.Syntax() == nil {
		return ""
	}
	s, e := ex.prog.Fset.Position(fn.Syntax().Pos()), ex.prog.Fset.Position(fn.Syntax().End())
	var data []byte
	if d, ok := srcCache.Load(s.Filename); ok {
		data = d.([]byte)
	} else {
		d, err := os.ReadFile(s.Filename)
		if err != nil {
			return ""
		}
		srcCache.Store(s.Filename, d)
		data = d
	}
	if s.Offset < 0 || e.Offset > len(data) || s.Offset > e.Offset {
		return ""
	}
	h := sha256.Sum256(data[s.Offset:e.Offset])
	return hex.EncodeToString(h[:6])
}

func (ex *Explorer) workerLoop(w *worker) {
	for {
		ex.mu.Lock()
		for len(ex.queue) == 0 && ex.active > 0 && !ex.stopped {
			ex.cond.Wait()
		}
		if ex.stopped || (len(ex.queue) == 0 && ex.active == 0) {
			ex.mu.Unlock()
			ex.cond.Broadcast()
			return
		}
		// DFS order: take the most recently pushed item
		it := ex.queue[len(ex.queue)-1]
		ex.queue = ex.queue[:len(ex.queue)-1]
		ex.active++
		ex.res.Paths++
		if ex.res.Paths > ex.maxPaths || (!ex.deadline.IsZero() && time.Now().After(ex.deadline)) {
			ex.res.Inconclusive = appendUniq(ex.res.Inconclusive, fmt.Sprintf("exploration bound hit (paths=%d, queue=%d): not all paths explored", ex.res.Paths, len(ex.queue)))
			ex.stopped = true
			ex.active--
			ex.mu.Unlock()
			ex.cond.Broadcast()
			return
		}
		ex.mu.Unlock()

		ex.runPath(w, it)

		ex.mu.Lock()
		ex.active--
		ex.mu.Unlock()
		ex.cond.Broadcast()
	}
}

func appendUniq(l []string, s string) []string {
	for _, x := range l {
		if x == s {
			return l
		}
	}
	return append(l, s)
}

func (ex *Explorer) runPath(w *worker, it workItem) {
	w.sv.Reset()
	p := &Path{ex: ex, w: w, sv: w.sv, prefix: it.prefix, globals: map[*ssa.Global]*Value{}, inited: map[*ssa.Package]bool{}}
	p.now = p.fresh("now0", 64)
	// virtual epoch: 2^40 ns <= now0 <= 2^60 ns so that "ages" never overflow
	p.addPC(And(Cmp(OSle, BV(64, 1<<40), p.now), Cmp(OSle, p.now, BV(64, 1<<60))))
	p.ranges = map[string]ival{p.now.Name: {1 << 40, 1 << 60}}
	main := p.newThread()
	p.cur = main
	reason := "done"
	func() {
		defer func() {
			if r := recover(); r != nil {
				switch x := r.(type) {
				case pathAbort:
					reason = x.reason
				case unsupported:
					reason = "unsupported"
					p.inconc = append(p.inconc, "unsupported: "+x.msg)
				case targetPanic:
					reason = "panic"
					p.uncaughtPanic(x)
				case threadKill:
					reason = "killed"
				case engineErr:
					reason = "engine-error"
					p.inconc = append(p.inconc, "engine error: "+x.msg)
				default:
					reason = "engine-error"
					p.inconc = append(p.inconc, fmt.Sprintf("engine error: %v\n%s", r, trimStack(debug.Stack())))
				}
			}
		}()
		p.callSSA(main, nil, token.NoPos, ex.entryFn, nil, nil)
		if p.expectPanic != "" {
			// the harness expected a panic that did not occur: fine (expectation is permissive)
		}
	}()
	main.finished = true
	p.killThreads()

	ex.mu.Lock()
	defer ex.mu.Unlock()
	r := &ex.res
	switch reason {
	case "infeasible":
		r.Infeasible++
	case "bounded":
		r.Bounded++
	default:
		r.PathsDone++
	}
	r.Branches += p.branches
	r.Merges += p.merges
	r.Steps += p.steps
	r.Obligations += p.oblTotal
	r.OblSolver += p.oblSolver
	r.OblConcrete += p.oblConcrete
	for c := range p.covers {
		r.Covers[c]++
		if _, ok := r.CoverSamples[c]; !ok && reason != "infeasible" {
			cs := CoverSample{}
			if p.model == nil {
				// best effort: ask for a model of the final PC
				if res, m := p.sv.Check(nil, true); res == Sat {
					p.setModel(m)
				}
			}
			if p.model != nil {
				memo := map[*Term]uint64{}
				for _, nd := range p.nondet {
					cs.Vec = append(cs.Vec, nd.T.Eval(p.model, memo))
					cs.Kinds = append(cs.Kinds, nd.Kind)
				}
				r.CoverSamples[c] = cs
			}
		}
	}
	for k, n := range p.havocs {
		r.Havocs[k] += n
	}
	for _, n := range p.notes {
		r.Notes = appendUniq(r.Notes, n)
	}
	for _, s := range p.inconc {
		r.Inconclusive = appendUniq(r.Inconclusive, s)
	}
	for _, v := range p.violations {
		key := v.Kind + "|" + v.ID + "|" + v.Func + "|" + v.Pos
		if ex.vioSeen[key] {
			continue
		}
		ex.vioSeen[key] = true
		r.Violations = append(r.Violations, v)
	}
}

func trimStack(b []byte) string {
	s := string(b)
	if len(s) > 1500 {
		s = s[:1500]
	}
	return s
}

// uncaughtPanic: an explicit panic escaped the harness entry.
func (p *Path) uncaughtPanic(tp targetPanic) {
	msg := "panic"
	if iv, ok := tp.v.(IfaceVal); ok {
		switch x := iv.V.(type) {
		case *StrVal:
			s, _ := x.Concrete()
			msg = s
		case *Value:
			if x != nil {
				if sv, ok := (*x).(StructVal); ok && len(sv) > 0 {
					if s, ok := sv[0].(*StrVal); ok {
						msg, _ = s.Concrete()
					}
				}
			}
		}
	}
	if p.expectPanic != "" && strings.Contains(msg, p.expectPanic) {
		p.cover("engine.expected-panic")
		return
	}
	if !p.ensureModelQuiet() {
		return
	}
	v := Violation{Harness: p.ex.entry, Kind: "panic", ID: "panic@" + tp.fn, Func: tp.fn, Pos: tp.pos, Detail: "explicit panic: " + msg, Conclusive: true}
	memo := map[*Term]uint64{}
	for _, nd := range p.nondet {
		v.Vec = append(v.Vec, nd.T.Eval(p.model, memo))
		v.Kinds = append(v.Kinds, nd.Kind)
	}
	v.Decs = append([]Decision{}, p.dec...)
	p.violations = append(p.violations, v)
}

func (p *Path) ensureModelQuiet() (ok bool) {
	defer func() {
		if r := recover(); r != nil {
			ok = false
		}
	}()
	return p.ensureModel()
}
