package memberlist

import (
	"net"
	"time"
)

func init() {
	vRegister("H_C16_PacketRoundTrip", H_C16_PacketRoundTrip)
}

var vLabelLens = []int{1, 2, 16, 254, 255}

// C16 codec, packet side: add then remove returns exactly (payload, label).
func H_C16_PacketRoundTrip() {
	ll := vLabelLens[vPick(len(vLabelLens))]
	label := string(vBytes(ll))
	payload := vBytes(vPick(4))
	out, err := AddLabelHeaderToPacket(payload, label)
	vAssert(err == nil, "c16.pkt.add-ok")
	vAssert(len(out) == 2+ll+len(payload), "c16.pkt.len")
	rest, got, err2 := RemoveLabelHeaderFromPacket(out)
	vAssert(err2 == nil, "c16.pkt.remove-ok")
	vAssert(vEqStr(got, label), "c16.pkt.label")
	vAssert(vEqBytes(rest, payload), "c16.pkt.payload")
	vCover("c16.pkt.roundtrip")
}

func init() {
	vRegister("H_C16_StreamRoundTrip", H_C16_StreamRoundTrip)
	vRegister("H_C16_Hostile", H_C16_Hostile)
	vRegister("H_C16_Isolation", H_C16_Isolation)
	vRegister("H_C16_Relabelled", H_C16_Relabelled)
	vRegister("H_C16_TooLong", H_C16_TooLong)
	vRegister("H_C16_Outbound", H_C16_Outbound)
}

// C16 codec, stream side: header + payload survive any fragmentation.
func H_C16_StreamRoundTrip() {
	lens := []int{0, 1, 2, 16, 255}
	if vTier() == 1 {
		lens = nil
		for i := 0; i <= 255; i++ {
			lens = append(lens, i)
		}
	}
	ll := lens[vPick(len(lens))]
	label := string(vBytes(ll))
	payload := vBytes(vPick(4))
	// without a header, a first payload byte equal to the magic value is indistinguishable from one
	if ll == 0 && len(payload) > 0 {
		vAssume(payload[0] != byte(hasLabelMsg))
	}
	w := &vConn{}
	vAssert(AddLabelHeaderToStream(w, label) == nil, "c16.str.add-ok")
	w.out = append(w.out, payload...)
	r := &vConn{in: w.out, frag: []int{0, 1, 2, 3, 7}[vPick(5)]}
	conn, got, err := RemoveLabelHeaderFromStream(r)
	vAssert(err == nil, "c16.str.remove-ok")
	if err != nil {
		return
	}
	vAssert(vEqStr(got, label), "c16.str.label")
	buf := make([]byte, 8)
	var rest []byte
	for i := 0; i < 8; i++ {
		n, rerr := conn.Read(buf)
		rest = append(rest, buf[:n]...)
		if rerr != nil {
			break
		}
	}
	vAssert(vEqBytes(rest, payload), "c16.str.payload")
	vCover("c16.str.roundtrip")
}

// C16: truncated / malformed headers give an error or a clean result, never a panic.
func H_C16_Hostile() {
	b := vBytes(vPick(7))
	if vPick(2) == 0 {
		rest, label, err := RemoveLabelHeaderFromPacket(b)
		if err == nil && len(b) > 0 && b[0] == byte(hasLabelMsg) {
			vAssert(len(label) >= 1 && len(label) == int(b[1]) && len(rest) == len(b)-2-len(label), "c16.hostile.pkt-accounting")
		}
		if len(b) > 0 && b[0] != byte(hasLabelMsg) {
			vAssert(err == nil && label == "" && vEqBytes(rest, b), "c16.hostile.pkt-unlabelled-untouched")
		}
		vCover("c16.hostile.pkt")
	} else {
		conn, label, err := RemoveLabelHeaderFromStream(&vConn{in: b, frag: vPick(3)})
		if err == nil {
			vAssert(conn != nil, "c16.hostile.str-conn")
			if len(b) > 0 && b[0] == byte(hasLabelMsg) {
				vAssert(len(label) >= 1, "c16.hostile.str-nonempty-label")
			}
		}
		vCover("c16.hostile.str")
	}
}

func H_C16_TooLong() {
	label := string(vBytes(256))
	_, err := AddLabelHeaderToPacket(vBytes(1), label)
	vAssert(err != nil, "c16.toolong.pkt")
	w := &vConn{}
	vAssert(AddLabelHeaderToStream(w, label) != nil && len(w.out) == 0, "c16.toolong.str")
	vCover("c16.toolong")
}

// C16 isolation: a node acts on traffic only if it carries exactly its own label (no header at all for an
// unlabelled node or one that delegates the check to an outer layer).
func H_C16_Isolation() {
	conf := vBaseConfig()
	mine := string(vBytes(vPick(3)))
	conf.Label = mine
	conf.SkipInboundLabelCheck = vBool()
	f := vNewML(conf)
	f.del = &vDelegateRec{}
	conf.Delegate = f.del
	f.vAddSelf(3, nil)
	theirs := string(vBytes(vPick(4))) // "" = no header on the wire
	same := vEqStr(theirs, mine)
	var accept bool
	if conf.SkipInboundLabelCheck {
		accept = theirs == ""
	} else {
		accept = same
	}
	if vPick(2) == 0 {
		body := []byte{byte(userMsg), vU8()}
		pkt := body
		if theirs != "" {
			pkt = makeLabelHeader(theirs, body)
		}
		f.m.ingestPacket(pkt, vAddr("10.0.0.9:1"), vNow())
		n := f.m.lowPriorityMsgQueue.Len()
		vAssert((n == 1) == accept, "c16.iso.pkt-acted-iff-own-label")
		vAssert(len(f.tr.packets) == 0, "c16.iso.pkt-no-reply")
		vCover("c16.iso.pkt")
	} else {
		pbuf, err := encode(pingMsg, &ping{SeqNo: vU32(), Node: vSelf}, false)
		vAssert(err == nil, "c16.iso.encode")
		in := pbuf.Bytes()
		if theirs != "" {
			in = makeLabelHeader(theirs, in)
		}
		conn := &vConn{in: in, frag: vPick(2)}
		f.m.handleConn(conn)
		replied := len(conn.out) > 0
		vAssert(replied == accept, "c16.iso.str-acted-iff-own-label")
		vAssert(conn.closed >= 1, "c16.iso.str-closed")
		vCover("c16.iso.str")
	}
}

// C16 with encryption: two logical clusters that share a gossip key. Traffic sealed for one label and then given
// the other cluster's clear-text header (a relabelling relay, a mis-set outer layer, an on-path rewrite) has no
// effect: the label is bound into the seal as associated data on packets and on streams. The same traffic under
// its own label is accepted (control).
func H_C16_Relabelled() {
	key := vBytes(16)
	mine := string(vBytes(vPick(3)))
	relabel := vPick(2) == 1
	theirs := mine
	if relabel {
		theirs = string(vBytes(vPick(3)))
		vAssume(!vEqStr(mine, theirs))
	}
	ca, cb := vBaseConfig(), vBaseConfig()
	cb.Name = vPeerA
	ca.Label, cb.Label = theirs, mine
	for _, c := range []*Config{ca, cb} {
		kr, _ := NewKeyring(nil, key)
		c.Keyring = kr
	}
	fa, fb := vNewML(ca), vNewML(cb)
	fb.vAddSelfNamed(vPeerA)
	fb.del = &vDelegateRec{}
	cb.Delegate = fb.del
	to := Address{Addr: "10.0.0.2:7946", Name: vPeerA}
	payload := vBytes(2)
	rehead := func(wire []byte) []byte {
		body := wire[labelOverhead(theirs):]
		if mine == "" {
			return body
		}
		return makeLabelHeader(mine, body)
	}
	if vPick(2) == 0 {
		msg := append([]byte{byte(userMsg)}, payload...)
		vAssert(fa.m.rawSendMsgPacket(to, nil, msg) == nil, "c16.relabel.pkt-send")
		vAssert(len(fa.tr.packets) == 1, "c16.relabel.pkt-sent")
		fb.m.ingestPacket(rehead(fa.tr.packets[0]), vAddr("10.0.0.1:7946"), vNow())
		n := fb.m.lowPriorityMsgQueue.Len()
		if relabel {
			vAssert(n == 0, "c16.relabel.pkt-sealed-for-another-label-has-no-effect")
			vCover("c16.relabel.pkt")
		} else {
			vAssert(n == 1, "c16.relabel.pkt-own-label-accepted")
			vCover("c16.relabel.pkt-own")
		}
	} else {
		out := &vConn{}
		fa.tr.conn = out
		vAssert(fa.m.sendUserMsg(to, payload) == nil, "c16.relabel.str-send")
		conn := &vConn{in: rehead(out.out)}
		fb.m.handleConn(conn)
		if relabel {
			vAssert(len(fb.del.msgs) == 0, "c16.relabel.str-sealed-for-another-label-has-no-effect")
			vCover("c16.relabel.str")
		} else {
			vAssert(len(fb.del.msgs) == 1 && vEqBytes(fb.del.msgs[0], payload), "c16.relabel.str-own-label-accepted")
			vCover("c16.relabel.str-own")
		}
	}
}

// vPlainTransport implements only Transport (not NodeAwareTransport): newMemberlist has to shim it.
type vPlainTransport struct{ inner *vTransport }

func (t *vPlainTransport) FinalAdvertiseAddr(ip string, port int) (net.IP, int, error) {
	return t.inner.FinalAdvertiseAddr(ip, port)
}
func (t *vPlainTransport) WriteTo(b []byte, addr string) (time.Time, error) {
	return t.inner.WriteTo(b, addr)
}
func (t *vPlainTransport) PacketCh() <-chan *Packet { return t.inner.PacketCh() }
func (t *vPlainTransport) DialTimeout(addr string, timeout time.Duration) (net.Conn, error) {
	return t.inner.DialTimeout(addr, timeout)
}
func (t *vPlainTransport) StreamCh() <-chan net.Conn { return t.inner.StreamCh() }
func (t *vPlainTransport) Shutdown() error           { return t.inner.Shutdown() }

// C16 outbound: a node built by the real constructor with a label puts the label header on every packet and at
// the start of every stream it opens, whichever kind of transport it was given; without a label nothing is added.
func H_C16_Outbound() {
	conf := vBaseConfig()
	label := string(vBytes(vPick(3)))
	conf.Label = label
	conf.Logger = vLogger()
	rec := &vTransport{packetCh: make(chan *Packet, 1), streamCh: make(chan net.Conn, 1)}
	if vPick(2) == 0 {
		conf.Transport = rec
	} else {
		conf.Transport = &vPlainTransport{inner: rec}
	}
	m, err := newMemberlist(conf)
	vAssert(err == nil, "c16.out.created")
	if err != nil {
		return
	}
	defer m.Shutdown() // stops the listener goroutines the constructor started, whatever happens below
	payload := vBytes(2)
	to := Address{Addr: "10.0.0.2:7946", Name: vPeerA}
	vAssert(m.rawSendMsgPacket(to, &Node{PMax: 2}, append([]byte{byte(userMsg)}, payload...)) == nil, "c16.out.packet-sent")
	vAssert(len(rec.packets) == 1, "c16.out.one-packet")
	if len(rec.packets) == 1 {
		rest, got, rerr := RemoveLabelHeaderFromPacket(rec.packets[0])
		vAssert(rerr == nil && vEqStr(got, label), "c16.out.packet-labelled")
		vAssert(len(rest) == 3 && rest[0] == byte(userMsg) && vEqBytes(rest[1:], payload), "c16.out.packet-payload")
	}
	conn := &vConn{}
	rec.conn = conn
	vAssert(m.sendUserMsg(to, payload) == nil, "c16.out.stream-sent")
	lo := labelOverhead(label)
	vAssert(len(conn.out) > lo, "c16.out.stream-written")
	if len(conn.out) > lo {
		if label == "" {
			vAssert(conn.out[0] == byte(userMsg), "c16.out.stream-unlabelled")
		} else {
			vAssert(vEqBytes(conn.out[:lo], makeLabelHeader(label, nil)) && conn.out[lo] == byte(userMsg), "c16.out.stream-labelled")
		}
	}
	vCover("c16.out")
}
