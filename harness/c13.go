package memberlist

import (
	"bytes"
	"time"
)

func init() {
	vRegister("H_C13_Packet", H_C13_Packet)
	vRegister("H_C13_Stream", H_C13_Stream)
	vRegister("H_C13_Handlers", H_C13_Handlers)
	vRegister("H_C13_Handoff", H_C13_Handoff)
	vRegister("H_C13_DeclaredSizes", H_C13_DeclaredSizes)
	vRegister("H_C13_EncryptedLengthCap", H_C13_EncryptedLengthCap)
	vRegister("H_C14_Packet", H_C14_Packet)
	vRegister("H_C14_Stream", H_C14_Stream)
	vRegister("H_C14_StreamRotation", H_C14_StreamRotation)
}

// vDrain runs the real packet handler goroutine until the handoff queues are empty, then stops it.
func (f *vFix) vDrain() {
	go f.m.packetHandler()
	vYield()
	close(f.m.shutdownCh)
	vYield()
	f.m.shutdownCh = make(chan struct{})
}

// C13 packet path: arbitrary bytes never panic and touch nothing before the handoff; the attacker may
// even hold the key (forged plaintexts). The leading byte is case-split over the message kinds.
func H_C13_Packet() {
	vOpt("hostile-budget", 2)
	vOpt("callbound:handleCommand", 3)
	conf := vBaseConfig()
	enc := vPick(3) // 0 off, 1 on + verify incoming, 2 on without verification (plaintext fallback)
	key := vBytes(16)
	if enc != 0 {
		kr, _ := NewKeyring(nil, key)
		conf.Keyring = kr
		conf.GossipVerifyIncoming = enc == 1
	}
	f := vNewML(conf)
	f.del = &vDelegateRec{}
	conf.Delegate = f.del
	f.vAddSelf(3, nil)
	f.vAddConcreteAlive(vPeerA, 2)
	var pkt []byte
	if enc == 1 {
		// the attacker holds the key: a really sealed arbitrary plaintext (first byte an unsupported kind, so that
		// the plaintext parser, explored above without encryption, stops at once), sealed as version 0 or 1,
		// then an arbitrary version byte, optionally truncated
		var n int
		if vTier() == 1 {
			n = vPick(20)
		} else {
			n = []int{0, 1, 2, 15, 16, 17}[vPick(6)]
		}
		pt := vBytes(n)
		if n > 0 {
			vAssume(pt[0] == 99)
		}
		var buf bytes.Buffer
		vAssert(encryptPayload(encryptionVersion(vPick(2)), key, pt, nil, &buf) == nil, "c13.pkt.seal")
		pkt = buf.Bytes()
		pkt[0] = vU8()
		pkt = pkt[:len(pkt)-vPick(2)]
	} else {
		kinds := []byte{byte(pingMsg), byte(indirectPingMsg), byte(ackRespMsg), byte(suspectMsg), byte(aliveMsg), byte(deadMsg), byte(pushPullMsg),
			byte(compoundMsg), byte(userMsg), byte(compressMsg), byte(encryptMsg), byte(nackRespMsg), byte(hasCrcMsg), byte(errMsg), byte(hasLabelMsg), 99}
		k := vPick(len(kinds) + 1)
		if k == len(kinds) {
			pkt = nil
		} else {
			pkt = append([]byte{kinds[k]}, vBytes(vPick(5+2*vTier()))...)
		}
	}
	f.m.ingestPacket(pkt, vAddr("10.0.0.9:1"), time.Time{})
	vAssert(f.m.highPriorityMsgQueue.Len()+f.m.lowPriorityMsgQueue.Len() <= 3, "c13.pkt.handoff-bounded")
	// framing-level claim: nothing but the handoff queues, the ack table and the transport was touched
	vAssert(len(f.m.nodes) == 2 && len(f.ev.log) == 0 && f.m.broadcasts.NumQueued() == 0, "c13.pkt.membership-untouched-before-handoff")
	vCover("c13.pkt.survived")
}

// C13 handoff cap: the queues never hold more than HandoffQueueDepth messages.
func H_C13_Handoff() {
	conf := vBaseConfig()
	conf.HandoffQueueDepth = vPick(3)
	f := vNewML(conf)
	f.vAddSelf(3, nil)
	for i := 0; i < 3; i++ {
		kind := []messageType{suspectMsg, aliveMsg, deadMsg, userMsg}[vPick(4)]
		f.m.ingestPacket([]byte{byte(kind), vU8()}, vAddr("10.0.0.9:1"), time.Time{})
		vAssert(f.m.highPriorityMsgQueue.Len() <= conf.HandoffQueueDepth && f.m.lowPriorityMsgQueue.Len() <= conf.HandoffQueueDepth, "c13.handoff.depth")
	}
	vCover("c13.handoff")
}

// vWellFormedHostile builds a syntactically valid message of the given kind whose every field is arbitrary
// (lengths case-split, contents symbolic) and encodes it with the real encoder, so that the very same
// bytes reach the real decoder in a native replay.
func vWellFormedHostile(kind messageType) []byte {
	names := []string{"", vSelf, vPeerA, vPeerB}
	name := func() string { return names[vPick(len(names))] }
	blob := func(lens ...int) []byte {
		n := lens[vPick(len(lens))]
		if n == 0 {
			return nil
		}
		return vBytes(n)
	}
	var in interface{}
	switch kind {
	case pingMsg:
		in = &ping{SeqNo: vU32(), Node: name(), SourceAddr: blob(0, 4, 5), SourcePort: vU16(), SourceNode: name()}
	case indirectPingMsg:
		in = &indirectPingReq{SeqNo: vU32(), Target: blob(0, 4, 5), Port: vU16(), Node: name(), Nack: vBool(), SourceAddr: blob(0, 4), SourcePort: vU16(), SourceNode: name()}
	case ackRespMsg:
		in = &ackResp{SeqNo: vU32(), Payload: blob(0, 2)}
	case nackRespMsg:
		in = &nackResp{SeqNo: vU32()}
	case suspectMsg:
		in = &suspect{Incarnation: vU32(), Node: name(), From: name()}
	case deadMsg:
		in = &dead{Incarnation: vU32(), Node: name(), From: name()}
	case aliveMsg:
		in = &alive{Incarnation: vU32(), Node: name(), Addr: blob(0, 4, 5, 16), Port: vU16(), Meta: blob(0, 1), Vsn: blob(0, 2, 3, 5, 6, 7)}
	default:
		return append([]byte{byte(kind)}, vBytes(2)...)
	}
	buf, err := encode(kind, in, false)
	vAssert(err == nil, "c13.hdl.encode")
	return buf.Bytes()
}

// C13 handlers: every message kind with arbitrary field contents and odd field lengths is processed by the real
// packet listener + packet handler goroutine without panicking, and the queues drain.
func H_C13_Handlers() {
	conf := vBaseConfig()
	if vPick(2) == 1 {
		conf.Alive = &vAliveRec{}
	}
	f := vNewML(conf)
	f.del = &vDelegateRec{}
	conf.Delegate = f.del
	f.vAddSelf(3, nil)
	if vPick(2) == 1 {
		f.vAddConcreteAlive(vPeerA, 2)
	}
	kind := []messageType{suspectMsg, aliveMsg, deadMsg, userMsg, pingMsg, indirectPingMsg, ackRespMsg, nackRespMsg}[vPick(8)]
	if kind == ackRespMsg || kind == nackRespMsg {
		// the node may be in the middle of a probe of its own or of a relay for somebody else: the hostile
		// response is free to carry exactly the pending sequence number
		switch vPick(4) {
		case 1:
			f.m.setProbeChannels(vU32(), make(chan ackMessage, 2), nil, 500*time.Millisecond)
		case 2:
			f.m.setProbeChannels(vU32(), make(chan ackMessage, 2), make(chan struct{}, 1), 500*time.Millisecond)
		case 3:
			f.m.setAckHandler(vU32(), func([]byte, time.Time) {}, 500*time.Millisecond)
		}
	}
	pkt := vWellFormedHostile(kind)
	f.m.ingestPacket(pkt, vAddr("10.0.0.9:1"), time.Time{})
	f.vDrain()
	vAdvance(time.Second)
	vAssert(f.m.highPriorityMsgQueue.Len() == 0 && f.m.lowPriorityMsgQueue.Len() == 0, "c13.hdl.drained")
	vAssert(f.vIsMember(vSelf), "c13.hdl.self-still-listed")
	vCover("c13.hdl.survived")
}

// C13 stream path: hostile streams (leading byte case-split; declared encrypted length case-split over
// boundary values; everything else arbitrary, cut anywhere, peer may stall) never panic; the connection is
// always closed, the deadline is set before the first read, the push/pull counter is restored.
func H_C13_Stream() {
	vOpt("hostile-budget", 2)
	conf := vBaseConfig()
	enc := vPick(3)
	key := vBytes(16)
	if enc != 0 {
		kr, _ := NewKeyring(nil, key)
		conf.Keyring = kr
		conf.GossipVerifyIncoming = enc == 1
	}
	f := vNewML(conf)
	f.del = &vDelegateRec{}
	conf.Delegate = f.del
	f.vAddSelf(3, nil)
	var in []byte
	kinds := []byte{byte(userMsg), byte(pushPullMsg), byte(pingMsg), byte(compressMsg), byte(errMsg), byte(hasLabelMsg), 77}
	k := vPick(len(kinds) + 2)
	switch {
	case k < len(kinds):
		in = append([]byte{kinds[k]}, vBytes(vPick(4+3*vTier()))...)
	case k == len(kinds):
		in = nil
	default:
		if vPick(2) == 0 {
			// [encryptMsg][declared length][body]: declared length from the boundary set, arbitrary body
			lens := []uint32{0, 1, 28, 29, 30, 45, 46, 1 << 20, maxPushStateBytes, maxPushStateBytes + 1, 0xFFFFFFFF}
			l := lens[vPick(len(lens))]
			body := []int{0, 1, 29, 30, 45, 46}[vPick(6)]
			in = append([]byte{byte(encryptMsg), byte(l >> 24), byte(l >> 16), byte(l >> 8), byte(l)}, vBytes(body)...)
		} else {
			// the attacker holds the key: a really sealed arbitrary plaintext with a consistent length prefix,
			// then an arbitrary encryption-version byte
			pt := vBytes([]int{0, 1, 2, 16, 17}[vPick(5)])
			if len(pt) > 0 {
				vAssume(pt[0] == 77)
			}
			ev := encryptionVersion(vPick(2))
			el := encryptedLength(ev, len(pt))
			hdr := []byte{byte(encryptMsg), byte(el >> 24), byte(el >> 16), byte(el >> 8), byte(el)}
			var buf bytes.Buffer
			vAssert(encryptPayload(ev, key, pt, hdr, &buf) == nil, "c13.str.seal")
			in = append(hdr, buf.Bytes()...)
			in[5] = vU8()
		}
	}
	conn := &vConn{in: in, frag: vPick(2), hang: vBool()}
	// concurrent push/pull cap: the counter may already be at or just below the documented limit
	pending := uint32(0)
	if len(in) > 0 && in[0] == byte(pushPullMsg) {
		pending = uint32([]int{0, maxPushPullRequests - 2, maxPushPullRequests - 1}[vPick(3)])
	}
	f.m.pushPullReq.Store(pending)
	f.m.handleConn(conn)
	vAssert(conn.closed >= 1, "c13.str.closed")
	vAssert(conn.readsBeforeDeadline == 0, "c13.str.deadline-before-read")
	vAssert(f.m.pushPullReq.Load() == pending, "c13.str.pushpull-counter-restored")
	if pending == maxPushPullRequests-1 {
		vAssert(len(f.m.nodes) == 1 && len(f.del.merged) == 0, "c13.str.pushpull-cap-refuses")
	}
	vAssert(f.vIsMember(vSelf), "c13.str.self-still-listed")
	vAssert(conn.writes <= 2, "c13.str.bounded-reply")
	vCover("c13.str.survived")
}

// vMutate applies one structured modification to a genuine wire image (wire2 = a second genuine image
// of the same length, for splices). Returns the attacker's buffer and what was done.
//   0 unmodified replay, 1 one byte replaced by a different value, 2 truncated, 3 one byte appended, 4 splice
func vMutate(wire, wire2 []byte) (atk []byte, kind, pos int) {
	return vMutateN(wire, wire2, 5)
}

func vMutateN(wire, wire2 []byte, kinds int) (atk []byte, kind, pos int) {
	kind = vPick(kinds)
	atk = append([]byte(nil), wire...)
	switch kind {
	case 1:
		pos = vPick(len(wire))
		v := vU8()
		vAssume(v != wire[pos])
		atk[pos] = v
	case 2:
		pos = vPick(len(wire))
		atk = atk[:pos]
	case 3:
		atk = append(atk, vU8())
	case 4:
		pos = 1 + vPick(len(wire)-1)
		atk = append(append([]byte(nil), wire[:pos]...), wire2[pos:]...)
	}
	return
}

// C14 packet path (attacker without the key): genuine sealed packets exist; every single-byte change,
// truncation, extension, splice and cross-key delivery either has no effect or yields exactly an original plaintext.
func H_C14_Packet() {
	ca, cb := vBaseConfig(), vBaseConfig()
	cb.Name = vPeerA
	key := vBytes(16)
	label := string(vBytes(vPick(2)))
	ev := vPick(2) // genuine sender's encryption version
	for _, c := range []*Config{ca, cb} {
		kr, _ := NewKeyring(nil, key)
		c.Keyring = kr
		c.Label = label
		if ev == 0 {
			c.ProtocolVersion = 1
		}
	}
	// receiver keyring variants: same key only / extra key first / foreign key only /
	// genuine key retired from a three-key ring by RemoveKey (kv 2 and 3 must drop the traffic)
	kv := vPick(4)
	other := vBytes(16)
	vAssume(!vEqBytes(other, key))
	switch kv {
	case 1:
		cb.Keyring, _ = NewKeyring([][]byte{key}, other)
	case 2:
		cb.Keyring, _ = NewKeyring(nil, other)
	case 3:
		third := vBytes(16)
		vAssume(!vEqBytes(third, key) && !vEqBytes(third, other))
		cb.Keyring, _ = NewKeyring([][]byte{key, third}, other)
		vAssert(cb.Keyring.RemoveKey(key) == nil, "c14.pkt.retire-key")
		kv = 2
	}
	// receiver that delegates the label check to an outer layer (SkipInboundLabelCheck): the header has been
	// stripped before the packet reaches it, but its own label is still the associated data
	//   skip 1: genuine traffic of its own cluster, header stripped   -> accepted
	//   skip 2: traffic sealed by a sender with NO label, same key     -> must be dropped
	skip := 0
	if label != "" {
		skip = vPick(3)
	}
	if skip != 0 {
		cb.SkipInboundLabelCheck = true
	}
	if skip == 2 {
		ca.Label = ""
	}
	fa, fb := vNewML(ca), vNewML(cb)
	fb.vAddSelfNamed(vPeerA)
	n := []int{0, 15, 17}[vPick(3)]
	p1, p2 := vBytes(n), vBytes(n)
	to := Address{Addr: "10.0.0.2:7946", Name: vPeerA}
	vAssert(fa.m.rawSendMsgPacket(to, &Node{PMax: 2}, append([]byte{byte(userMsg)}, p1...)) == nil, "c14.pkt.send-ok")
	vAssert(fa.m.rawSendMsgPacket(to, &Node{PMax: 2}, append([]byte{byte(userMsg)}, p2...)) == nil, "c14.pkt.send2-ok")
	wire, wire2 := fa.tr.packets[0], fa.tr.packets[1]
	if skip != 0 {
		if skip == 1 {
			lo := labelOverhead(label)
			wire, wire2 = wire[lo:], wire2[lo:]
		}
		fb.m.ingestPacket(append([]byte(nil), wire...), vAddr("10.0.0.66:1"), time.Time{})
		h, delivered := fb.m.getNextMessage()
		if skip == 1 && kv != 2 {
			vAssert(delivered && h.msgType == userMsg && vEqBytes(h.buf, p1), "c14.pkt.skip.own-cluster-accepted")
		} else {
			vAssert(!delivered, "c14.pkt.skip.other-label-dropped")
		}
		vCover("c14.pkt.skip")
		return
	}
	atk, kind, pos := vMutateN(wire, wire2, 6)
	if kind == 5 {
		// no ciphertext at all: the plaintext message itself, behind the right label header
		atk = append([]byte{byte(userMsg)}, p1...)
		if label != "" {
			atk = makeLabelHeader(label, atk)
		}
	}

	fb.m.ingestPacket(append([]byte(nil), atk...), vAddr("10.0.0.66:1"), time.Time{})

	h, delivered := fb.m.getNextMessage()
	lo := labelOverhead(label)
	if kind == 5 {
		vAssert(!delivered, "c14.pkt.plaintext-dropped")
		vCover("c14.pkt.plaintext")
		return
	}
	if !delivered {
		vAssert(kind != 0 || kv == 2, "c14.pkt.genuine-accepted")
		vCover("c14.pkt.dropped")
		return
	}
	vAssert(kv != 2, "c14.pkt.foreign-key-rejected")
	vAssert(kind != 2 && kind != 3, "c14.pkt.length-tamper-rejected")
	exact := vAnd(h.msgType == userMsg, vEqBytes(h.buf, p1))
	// in the ideal-AEAD model two independent ciphertexts may coincide, in which case a "modified" buffer is
	// simply the other genuine message: an original plaintext is then still what is delivered
	either := vOr(exact, vAnd(h.msgType == userMsg, vEqBytes(h.buf, p2)))
	switch kind {
	case 0:
		vAssert(exact, "c14.pkt.genuine-plaintext")
		vCover("c14.pkt.genuine")
	case 1:
		if pos == lo {
			// the leading encryption-version byte is not covered by the authentication tag
			vAssert(exact, "c14.pkt.version-byte-flip-alters-plaintext")
		} else {
			vAssert(either, "c14.pkt.modified-byte-yields-other-plaintext")
		}
	case 4:
		vAssert(either, "c14.pkt.splice-yields-other-plaintext")
	}
}

// C14 stream path, same attacker.
func H_C14_Stream() {
	ca, cb := vBaseConfig(), vBaseConfig()
	cb.Name = vPeerA
	key := vBytes(16)
	label := string(vBytes(vPick(2)))
	ev := vPick(2)
	for _, c := range []*Config{ca, cb} {
		kr, _ := NewKeyring(nil, key)
		c.Keyring = kr
		c.Label = label
		if ev == 0 {
			c.ProtocolVersion = 1
		}
	}
	fa, fb := vNewML(ca), vNewML(cb)
	fb.vAddSelfNamed(vPeerA)
	fb.del = &vDelegateRec{}
	cb.Delegate = fb.del
	n := []int{1, 13}[vPick(2)]
	p1, p2 := vBytes(n), vBytes(n)
	to := Address{Addr: "10.0.0.2:7946", Name: vPeerA}
	out1, out2 := &vConn{}, &vConn{}
	fa.tr.conn = out1
	vAssert(fa.m.sendUserMsg(to, p1) == nil, "c14.str.send-ok")
	fa.tr.conn = out2
	vAssert(fa.m.sendUserMsg(to, p2) == nil, "c14.str.send2-ok")
	atk, kind, pos := vMutateN(out1.out, out2.out, 6)
	if kind == 5 {
		// an unencrypted but otherwise well-formed user message stream, behind the right label header
		plainConf := vBaseConfig()
		plainConf.Label = label
		// ... sent as is or inside the (equally unauthenticated) compression wrapper
		plainConf.EnableCompression = vPick(2) == 1
		fp := vNewML(plainConf)
		pc := &vConn{}
		fp.tr.conn = pc
		vAssert(fp.m.sendUserMsg(to, p1) == nil, "c14.str.plain-send")
		atk = pc.out
	}
	conn := &vConn{in: atk, hang: vBool()}
	fb.m.handleConn(conn)
	lo := labelOverhead(label)
	if kind == 5 {
		vAssert(len(fb.del.msgs) == 0, "c14.str.plaintext-refused")
		vAssert(conn.writes <= 1, "c14.str.plaintext-one-error-reply")
		if conn.writes == 1 {
			vAssert(len(conn.out) > 0 && conn.out[0] == byte(encryptMsg), "c14.str.error-reply-encrypted")
		}
		vCover("c14.str.plaintext")
		return
	}
	if len(fb.del.msgs) == 0 {
		vAssert(kind != 0, "c14.str.genuine-accepted")
		vAssert(conn.writes <= 1, "c14.str.at-most-one-error-reply")
		vCover("c14.str.dropped")
		return
	}
	vAssert(len(fb.del.msgs) == 1, "c14.str.at-most-one")
	exact := vEqBytes(fb.del.msgs[0], p1)
	either := vOr(exact, vEqBytes(fb.del.msgs[0], p2))
	switch kind {
	case 0:
		vAssert(exact, "c14.str.genuine-plaintext")
		vCover("c14.str.genuine")
	case 1:
		if pos == lo+5 {
			vAssert(exact, "c14.str.version-byte-flip-alters-plaintext")
		} else {
			vAssert(either, "c14.str.modified-byte-yields-other-plaintext")
		}
	case 2:
		vAssert(false, "c14.str.truncated-accepted")
	case 3:
		// trailing garbage after a complete authenticated envelope is never read
		vAssert(exact, "c14.str.extension-ignored")
	case 4:
		vAssert(either, "c14.str.splice-yields-other-plaintext")
	}
}

// C13 caps: sizes declared in a well-formed header (push/pull node count and user-state length, user-message
// length) beyond the documented caps are refused before anything is buffered; declared sizes within the caps
// allocate at most what the caps allow. Headers are encoded with the real encoder so the witness replays.
func H_C13_DeclaredSizes() {
	conf := vBaseConfig()
	f := vNewML(conf)
	f.del = &vDelegateRec{}
	conf.Delegate = f.del
	f.vAddSelf(3, nil)
	const nodeBytes = 112 // unsafe.Sizeof(pushNodeState{}) on 64-bit
	const slack = 8 << 20 // buffers, decoder state, ... (the native counter sees every allocation)
	var in []byte
	kind := vPick(2)
	nodes, ulen := 0, 0
	capU := maxPushStateBytes
	if kind == 0 {
		nodes = vRange(-3, 3<<20)
		ulen = vRange(-3, 48<<20)
		hb, err := encode(pushPullMsg, &pushPullHeader{Nodes: nodes, UserStateLen: ulen, Join: vBool()}, false)
		vAssert(err == nil, "c13.sizes.encode")
		in = hb.Bytes()
	} else {
		ulen = vRange(-3, 48<<20)
		hb, err := encode(userMsg, &userMsgHeader{UserMsgLen: ulen}, false)
		vAssert(err == nil, "c13.sizes.encode")
		in = hb.Bytes()
		capU = maxUserMsgBytes
	}
	supplied := vPick(3)
	in = append(in, vBytes(supplied)...)
	before := vAllocated()
	conn := &vConn{in: in, hang: vBool()}
	f.m.handleConn(conn)
	used := vAllocated() - before
	// what the documented caps allow for these declared sizes: nothing at all for a size beyond its cap
	allowed := uint64(slack)
	if nodes >= 0 && nodes <= maxPushStateNodes {
		allowed += uint64(nodes) * nodeBytes
	}
	if ulen > 0 && ulen <= capU {
		allowed += uint64(ulen)
	}
	vAssert(used <= allowed, "c13.sizes.nothing-buffered-beyond-the-caps")
	if ulen > supplied || ulen < 0 {
		// more user data declared than supplied (or a nonsensical size): nothing may be acted on
		vAssert(len(f.m.nodes) == 1 && len(f.del.merged) == 0 && len(f.del.msgs) == 0, "c13.sizes.incomplete-not-processed")
	}
	vAssert(conn.closed >= 1 && f.m.pushPullReq.Load() == 0, "c13.sizes.cleaned-up")
	vCover("c13.sizes")
}

// C13 caps: an encrypted stream whose declared length exceeds the documented cap is refused before its body is
// read: out of a long body only what the buffered reader had already fetched is ever consumed.
func H_C13_EncryptedLengthCap() {
	conf := vBaseConfig()
	kr, _ := NewKeyring(nil, vBytes(16))
	conf.Keyring = kr
	f := vNewML(conf)
	f.vAddSelf(3, nil)
	// any declared length beyond the cap (all four prefix bytes symbolic)
	l := vU32()
	vAssume(l > maxPushStateBytes)
	body := make([]byte, 20000)
	in := append([]byte{byte(encryptMsg), byte(l >> 24), byte(l >> 16), byte(l >> 8), byte(l)}, body...)
	conn := &vConn{in: in}
	f.m.handleConn(conn)
	vAssert(conn.pos <= 2*4096, "c13.enclen.body-not-read-beyond-the-cap")
	vAssert(conn.closed >= 1, "c13.enclen.closed")
	vCover("c13.enclen")
}

// C14 x rotation on the stream path: a genuine stream sealed under a key that the receiver removes while the
// stream is still arriving (after any prefix: label header, type byte, length prefix, part of the ciphertext)
// has no effect; without the removal it is accepted.
func H_C14_StreamRotation() {
	ca, cb := vBaseConfig(), vBaseConfig()
	cb.Name = vPeerA
	key, key2 := vBytes(16), vBytes(16)
	vAssume(!vEqBytes(key, key2))
	label := string(vBytes(vPick(2)))
	kra, _ := NewKeyring(nil, key)
	krb, _ := NewKeyring([][]byte{key}, key2)
	ca.Keyring, cb.Keyring = kra, krb
	ca.Label, cb.Label = label, label
	fa, fb := vNewML(ca), vNewML(cb)
	fb.vAddSelfNamed(vPeerA)
	fb.del = &vDelegateRec{}
	cb.Delegate = fb.del
	p1 := vBytes(3)
	out := &vConn{}
	fa.tr.conn = out
	vAssert(fa.m.sendUserMsg(Address{Addr: "10.0.0.2:7946", Name: vPeerA}, p1) == nil, "c14.rot.send-ok")
	lo := labelOverhead(label)
	conn := &vConn{in: out.out}
	removed := false
	if vPick(2) == 1 {
		cuts := []int{lo, lo + 1, lo + 3, lo + 5, lo + 6, lo + 18, len(out.out) - 1}
		conn.stallAt = cuts[vPick(len(cuts))]
		vAssume(conn.stallAt < len(out.out))
		conn.onStall = func() {
			vAssert(krb.RemoveKey(key) == nil, "c14.rot.remove-ok")
			removed = true
		}
	}
	scheduled := conn.onStall != nil
	fb.m.handleConn(conn)
	if scheduled {
		vAssert(removed, "c14.rot.stalled")
	}
	if removed {
		vAssert(len(fb.del.msgs) == 0, "c14.rot.removed-key-mid-stream-refused")
		vCover("c14.rot.refused")
	} else {
		vAssert(len(fb.del.msgs) == 1 && vEqBytes(fb.del.msgs[0], p1), "c14.rot.genuine-accepted")
		vCover("c14.rot.accepted")
	}
}
