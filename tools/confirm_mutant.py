#!/usr/bin/env python3
"""confirm_mutant.py <seed-id> <property> <agent-worktree>
Independently confirms a sub-agent's change in a fresh scratch worktree of /repo: it compiles, the
demonstration fails with it and passes without it, the existing suite passes with it. On success
stores it under /verif/seeded/<seed-id>/ (patch.diff, demo_test.go, NOTE.md, meta.json)."""
import json, os, shutil, subprocess, sys, time

seed, prop, wt = sys.argv[1], sys.argv[2], sys.argv[3]
scratch = "/tmp/confirm-" + seed
env = dict(os.environ)

def run(cmd, cwd, timeout=1500):
    r = subprocess.run(cmd, cwd=cwd, shell=True, capture_output=True, text=True, timeout=timeout, env=env)
    return r.returncode, (r.stdout + r.stderr)

subprocess.run("git -C /repo worktree remove --force %s 2>/dev/null; rm -rf %s" % (scratch, scratch), shell=True)
assert run("git -C /repo worktree add -q --detach %s HEAD" % scratch, "/")[0] == 0
res = {"seed": seed, "property": prop, "ran": []}
try:
    patch = os.path.join(wt, "mutant.diff")
    demo = os.path.join(wt, "demo_test.go")
    assert os.path.exists(patch) and os.path.exists(demo), "missing deliverables"
    rc, out = run("git apply --whitespace=nowarn %s" % patch, scratch)
    res["ran"].append(["git apply", rc])
    assert rc == 0, "patch does not apply: " + out
    rc, out = run("git diff --stat", scratch)
    res["files"] = out.strip().splitlines()
    assert all("_test.go" not in l for l in res["files"][:-1]), "patch touches test files"
    rc, out = run("go build ./... && go vet ./... >/dev/null 2>&1; go build ./...", scratch)
    res["ran"].append(["go build", rc])
    assert rc == 0, "does not compile: " + out[-400:]
    # existing suite with the change (without the demo)
    rc, out = run("go test -vet=off -count=1 -timeout 25m ./... 2>&1 | tail -15", scratch)
    ok = "FAIL" not in out
    if not ok:  # one retry for flaky tests
        rc, out = run("go test -vet=off -count=1 -timeout 25m ./... 2>&1 | tail -15", scratch)
        ok = "FAIL" not in out
    res["ran"].append(["suite with change", "pass" if ok else "FAIL"])
    assert ok, "existing suite fails with the change: " + out[-600:]
    shutil.copy(demo, os.path.join(scratch, "zz_demo_test.go"))
    rc, out = run("go test -vet=off -count=1 -timeout 10m -run . -v ./ 2>&1 | grep -E '^(--- FAIL|FAIL|ok|panic)' | head -5", scratch)
    # run only the demo's tests
    names = subprocess.run("grep -ho 'func Test[A-Za-z0-9_]*' %s | sed 's/func //' | tr '\\n' '|' | sed 's/|$//'" % demo, shell=True, capture_output=True, text=True).stdout.strip()
    rc1, out1 = run("go test -vet=off -count=1 -timeout 10m -run '^(%s)$' . 2>&1 | tail -8" % names, scratch)
    res["ran"].append(["demo with change", "FAIL" if rc1 != 0 or "FAIL" in out1 else "pass"])
    assert rc1 != 0 or "FAIL" in out1, "demonstration does not fail with the change"
    run("git checkout -- .", scratch)
    rc2, out2 = run("go test -vet=off -count=1 -timeout 10m -run '^(%s)$' . 2>&1 | tail -8" % names, scratch)
    res["ran"].append(["demo without change", "pass" if "ok" in out2 and "FAIL" not in out2 else "FAIL"])
    assert "ok" in out2 and "FAIL" not in out2, "demonstration does not pass without the change: " + out2[-400:]
    d = os.path.join("/verif/seeded", seed)
    os.makedirs(d, exist_ok=True)
    shutil.copy(patch, os.path.join(d, "patch.diff"))
    shutil.copy(demo, os.path.join(d, "demo_test.go"))
    if os.path.exists(os.path.join(wt, "NOTE.md")):
        shutil.copy(os.path.join(wt, "NOTE.md"), os.path.join(d, "NOTE.md"))
    res["confirmed"] = True
    res["confirmed_at"] = time.strftime("%Y-%m-%d %H:%M")
    json.dump(res, open(os.path.join(d, "meta.json"), "w"), indent=1)
    print("CONFIRMED", seed, res["ran"])
except AssertionError as e:
    print("REJECTED", seed, e)
finally:
    subprocess.run("git -C /repo worktree remove --force %s; rm -rf %s" % (scratch, scratch), shell=True)
