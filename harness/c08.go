package memberlist

import "time"

func init() {
	vRegister("H_C08_Leave", H_C08_Leave)
	vRegister("H_C08_PeerLeave", H_C08_PeerLeave)
	vRegister("H_C08_AddrTable", H_C08_AddrTable)
}

// C08 (leaver side): Leave marks us Left, queues a self-signed dead with the completion channel,
// is final against alive messages about ourselves, and a second Leave is a no-op.
func H_C08_Leave() {
	conf := vBaseConfig()
	f := vNewML(conf)
	m := f.m
	selfInc := vU32()
	vAssume(selfInc < 0xFFFFFFF0)
	me := f.vAddSelf(selfInc, vBytes(1))
	hasPeer := vPick(2) == 1
	if hasPeer {
		f.vAddConcreteAlive(vPeerA, 2)
	}
	// an older alive about ourselves is still queued
	m.encodeBroadcastNotify(vSelf, aliveMsg, &alive{Incarnation: selfInc, Node: vSelf}, nil)
	vAssert(m.broadcasts.NumQueued() == 1, "c08.leave.pre-queued")

	t0 := vNow()
	err := m.Leave(20 * time.Millisecond)
	vAssert(vNow().Sub(t0) <= 20*time.Millisecond, "c08.leave.never-blocks-past-timeout")
	if hasPeer {
		vAssert(err != nil, "c08.leave.times-out-without-gossip")
	} else {
		vAssert(err == nil, "c08.leave.alone-returns-nil")
	}
	vAssert(m.hasLeft(), "c08.leave.flag")
	vAssert(me.State == StateLeft, "c08.leave.self-left")
	vAssert(!f.vIsMember(vSelf), "c08.leave.not-listed")
	vAssert(m.broadcasts.NumQueued() == 1, "c08.leave.alive-superseded")
	mb := f.vQueuedFor(vSelf)
	vAssert(mb != nil, "c08.leave.dead-queued")
	if mb != nil {
		vAssert(mb.msg[0] == byte(deadMsg), "c08.leave.is-dead-msg")
		var d dead
		vAssert(decode(mb.msg[1:], &d) == nil, "c08.leave.decodes")
		vAssert(d.Node == vSelf && d.From == vSelf, "c08.leave.self-signed")
		vAssert(d.Incarnation == selfInc, "c08.leave.incarnation")
		vAssert(mb.notify == m.leaveBroadcast, "c08.leave.notify-channel")
	}
	vAssert(len(f.ev.log) == 1 && f.ev.log[0].kind == 2 && f.ev.log[0].name == vSelf, "c08.leave.event")

	// no resurrection on the leaver: any alive about ourselves is dropped
	a := alive{Incarnation: vU32(), Node: vSelf, Addr: me.Addr, Port: me.Port, Meta: vBytes(1), Vsn: conf.BuildVsnArray()}
	m.aliveNode(&a, nil, vBool())
	vAssert(me.State == StateLeft, "c08.leave.final")
	vAssert(len(f.ev.log) == 1, "c08.leave.final-no-event")
	vAssert(m.broadcasts.NumQueued() == 1, "c08.leave.final-no-gossip")

	// idempotent
	err2 := m.Leave(20 * time.Millisecond)
	vAssert(err2 == nil, "c08.leave.second-nil")
	vAssert(m.broadcasts.NumQueued() == 1, "c08.leave.second-no-gossip")
	vAssert(len(f.ev.log) == 1, "c08.leave.second-no-event")
	vCover("c08.leave")
}

// C08 (peer side): a self-signed dead at an incarnation >= ours marks the member Left, and alive
// messages no newer than the departure (from the same address) never bring it back.
func H_C08_PeerLeave() {
	conf := vBaseConfig()
	conf.DeadNodeReclaimTime = time.Duration(vRange(0, 1<<44))
	f := vNewML(conf)
	m := f.m
	f.vAddSelf(vU32(), nil)
	ns := f.vAddNode(vPeerA, vPick(2))
	vAssume(vOr(ns.State == StateAlive, ns.State == StateSuspect))
	incL := vU32()
	vAssume(incL >= ns.Incarnation)
	merge := vPick(2) == 1
	if merge {
		m.mergeState([]pushNodeState{{Name: vPeerA, Addr: ns.Addr, Port: ns.Port, Incarnation: incL, State: StateLeft}})
	} else {
		m.deadNode(&dead{Incarnation: incL, Node: vPeerA, From: vPeerA})
	}
	vAssert(ns.State == StateLeft, "c08.peer.left-not-dead")
	vAssert(ns.Incarnation == incL, "c08.peer.incarnation")
	vAssert(len(f.ev.log) == 1 && f.ev.log[0].kind == 2, "c08.peer.leave-event")
	vAssert(len(m.nodeTimers) == 0, "c08.peer.timer-cleared")
	mb := f.vQueuedFor(vPeerA)
	vAssert(mb != nil && mb.msg[0] == byte(deadMsg), "c08.peer.regossip-dead")

	// in-flight alive traffic no newer than the departure, same address
	snap := f.vSnapshot(vPeerA)
	incA := vU32()
	vAssume(incA <= incL)
	a := alive{Incarnation: incA, Node: vPeerA, Addr: append([]byte(nil), ns.Addr...), Port: ns.Port, Meta: vBytes(vPick(2))}
	if vPick(2) == 1 {
		a.Vsn = vBytes(6)
	}
	if vPick(2) == 1 {
		m.mergeState([]pushNodeState{{Name: vPeerA, Addr: a.Addr, Port: a.Port, Meta: a.Meta, Incarnation: incA, State: StateAlive, Vsn: a.Vsn}})
	} else {
		m.aliveNode(&a, nil, false)
	}
	vAssert(f.vSameRecord(vPeerA, snap), "c08.peer.no-resurrection")
	vAssert(len(f.ev.log) == 1, "c08.peer.no-resurrection-event")
	// a suspect or dead accusation afterwards changes nothing either
	m.suspectNode(&suspect{Incarnation: vU32(), Node: vPeerA, From: vPeerB})
	vAssert(f.vSameRecord(vPeerA, snap), "c08.peer.suspect-after-left")
	vCover("c08.peer")
}

// C08 address table: a different address never replaces a live / recently dead holder's address.
func H_C08_AddrTable() {
	conf := vBaseConfig()
	conf.DeadNodeReclaimTime = time.Duration(vRange(0, 1<<44))
	f := vNewML(conf)
	m := f.m
	f.vAddSelf(vU32(), nil)
	if vPick(2) == 1 {
		f.alive = &vAliveRec{veto: vBool()}
		conf.Alive = f.alive
	}
	ns := f.vAddNode(vPeerA, vPick(2))
	pre := f.vSnapshot(vPeerA)
	age := time.Since(pre.change)
	a := alive{Incarnation: vU32(), Node: vPeerA, Addr: vBytes(4), Port: vU16(), Meta: vBytes(vPick(2)), Vsn: vBytes(6)}
	vAssume(vOr(!vEqBytes(a.Addr, pre.addr), a.Port != pre.port))
	vsnBad := vOr(vOr(a.Vsn[0] == 0, a.Vsn[1] == 0), a.Vsn[0] > a.Vsn[1])
	vetoed := f.alive != nil && f.alive.veto
	if vPick(2) == 1 {
		m.mergeState([]pushNodeState{{Name: vPeerA, Addr: a.Addr, Port: a.Port, Meta: a.Meta, Incarnation: a.Incarnation, State: StateAlive, Vsn: a.Vsn}})
	} else {
		m.aliveNode(&a, nil, false)
	}
	canReclaim := vAnd(conf.DeadNodeReclaimTime > 0, age > conf.DeadNodeReclaimTime)
	adoptable := vOr(pre.state == StateLeft, vAnd(pre.state == StateDead, canReclaim))
	filtered := vOr(vsnBad, vetoed)
	if filtered {
		vAssert(f.vSameRecord(vPeerA, pre), "c08.addr.filtered-unchanged")
		vAssert(f.conflict.n == 0, "c08.addr.filtered-no-conflict")
		vCover("c08.addr.filtered")
	} else if adoptable {
		vAssert(vEqBytes(ns.Addr, a.Addr) && ns.Port == a.Port, "c08.addr.reclaimed")
		vAssert(ns.State == StateAlive, "c08.addr.reclaimed-alive")
		vAssert(ns.Incarnation == a.Incarnation, "c08.addr.reclaimed-inc")
		vAssert(len(f.ev.log) == 1 && f.ev.log[0].kind == 1, "c08.addr.reclaimed-join")
		vAssert(f.conflict.n == 0, "c08.addr.reclaimed-no-conflict")
		vCover("c08.addr.reclaimed")
	} else {
		vAssert(f.vSameRecord(vPeerA, pre), "c08.addr.conflict-unchanged")
		vAssert(f.conflict.n == 1, "c08.addr.conflict-callback")
		vAssert(len(f.ev.log) == 0, "c08.addr.conflict-no-event")
		vAssert(f.vQueuedFor(vPeerA) == nil, "c08.addr.conflict-no-gossip")
		vCover("c08.addr.conflict")
	}
}

func init() {
	vRegister("H_C08_LeaveWindow", H_C08_LeaveWindow)
	vRegister("H_C08_LeaveDelivers", H_C08_LeaveDelivers)
}

// C08, Leave racing an accusation. Leave raises its flag, reads the local incarnation under the node lock,
// releases the lock and only then calls deadNode. An accusation handled in that window (here laid out
// step by step, so that it replays deterministically) must not strand the node: once any Leave call
// returns nil with a live peer around, the node has marked itself Left and queued its departure.
func H_C08_LeaveWindow() {
	conf := vBaseConfig()
	f := vNewML(conf)
	m := f.m
	selfInc := vU32()
	vAssume(selfInc < 0xFFFFFFF0)
	me := f.vAddSelf(selfInc, nil)
	f.vAddConcreteAlive(vPeerA, 2)

	// first half of Leave (memberlist.go): flag, then the incarnation read
	m.leave.Store(1)
	readInc := me.Incarnation
	// the window: a peer's accusation about us is handled
	accInc := vU32()
	vAssume(accInc != 0xFFFFFFFF)
	if vPick(2) == 0 {
		m.suspectNode(&suspect{Incarnation: accInc, Node: vSelf, From: vPeerA})
	} else {
		m.deadNode(&dead{Incarnation: accInc, Node: vSelf, From: vPeerA})
	}
	// second half of Leave: the self-signed dead with the incarnation read earlier
	m.deadNode(&dead{Incarnation: readInc, Node: vSelf, From: vSelf})

	// the application (or a retry loop) calls Leave again
	err := m.Leave(20 * time.Millisecond)
	if err == nil {
		vAssert(me.State == StateLeft || me.State == StateDead, "c08.window.leave-nil-implies-departed")
		mb := f.vQueuedFor(vSelf)
		vAssert(mb != nil && mb.msg[0] == byte(deadMsg), "c08.window.departure-queued")
		vAssert(!f.vIsMember(vSelf), "c08.window.not-listed")
	}
	vCover("c08.window")
}

// C08: Leave returns nil (with a live peer around) only after the departure has actually been handed to the
// transport for a live peer; until then it keeps waiting, and it gives up with an error at its timeout.
func H_C08_LeaveDelivers() {
	conf := vBaseConfig()
	conf.GossipNodes = 1
	f := vNewML(conf)
	m := f.m
	selfInc := vU32()
	vAssume(selfInc < 0xFFFFFFF0)
	f.vAddSelf(selfInc, nil)
	peer := f.vAddConcreteAlive(vPeerA, 2)
	peer.PMax = 2
	// the only other member may be one we currently suspect: it is still a member and still gossiped to
	peer.State = []NodeStateType{StateAlive, StateSuspect}[vPick(2)]
	rounds := vPick(6) // how many gossip rounds happen before the timeout
	var res error
	done := false
	go func() { res = m.Leave(time.Second); done = true }()
	vYield()
	vAssert(!done, "c08.deliver.waits-for-gossip")
	for i := 0; i < rounds && !done; i++ {
		m.gossip()
		vYield()
	}
	sentDepartures := 0
	for i, pkt := range f.tr.packets {
		var d dead
		if len(pkt) > 0 && messageType(pkt[0]) == deadMsg && decode(pkt[1:], &d) == nil && d.Node == vSelf && d.From == vSelf {
			vAssert(d.Incarnation == selfInc, "c08.deliver.incarnation")
			vAssert(f.tr.to[i].Name == vPeerA, "c08.deliver.to-live-peer")
			sentDepartures++
		}
	}
	if done {
		vAssert(res == nil, "c08.deliver.nil-when-notified")
		vAssert(sentDepartures >= 1, "c08.deliver.nil-implies-sent-to-a-live-peer")
		vCover("c08.deliver.sent")
	} else {
		vAdvance(time.Second)
		vAssert(done && res != nil, "c08.deliver.gives-up-at-timeout")
		vCover("c08.deliver.timeout")
	}
	vAssert(sentDepartures == rounds || done, "c08.deliver.every-round-gossips-it")
}
