package memberlist

func init() {
	vRegister("H_C10_Sequence", H_C10_Sequence)
	vRegister("H_C10_PlainVersions", H_C10_PlainVersions)
}

type vBcast struct {
	msg    []byte
	group  int // plain broadcasts invalidate queued plain broadcasts of the same group whose version is not newer
	ver    int
	fin    int
	name   string
	seq    int // model: submission order
	tr     int // model: transmits so far
	live   bool
	taken  bool
}

type vNamedB struct{ *vBcast }
type vUniqueB struct{ *vBcast }
type vPlainB struct{ *vBcast }

func (b *vBcast) Message() []byte { return b.msg }
func (b *vBcast) Finished()       { b.fin++ }

func (b vNamedB) Invalidates(o Broadcast) bool { return false }
func (b vNamedB) Name() string                 { return b.name }

func (b vUniqueB) Invalidates(o Broadcast) bool { return false }
func (b vUniqueB) UniqueBroadcast()             {}

func (b vPlainB) Invalidates(o Broadcast) bool {
	if p, ok := o.(vPlainB); ok {
		return p.group == b.group && p.ver <= b.ver
	}
	return false
}

type vQModel struct {
	items []*vBcast // every broadcast ever submitted
	seq   int
}

func (q *vQModel) live() int {
	n := 0
	for _, b := range q.items {
		if b.live {
			n++
		}
	}
	return n
}

// C10: arbitrary operation sequences against a reference list model.
func H_C10_Sequence() {
	// operation alphabet: quick = {queue x, queue y, queue unique(2 bytes), get(overhead 2), prune, reset};
	// thorough = all nine operation variants
	alphabet := []int{0, 1, 3, 6, 7, 8}
	if vTier() == 1 {
		alphabet = []int{0, 1, 2, 3, 4, 5, 6, 7, 8}
	}
	vC10Run(alphabet, 4, false)
	vCover("c10.sequence")
}

// C10 for broadcasts that are neither named nor unique and whose Invalidates is a version order (a late, older
// version coexists with a newer one; a still newer one supersedes both at once): same reference model.
func H_C10_PlainVersions() {
	vC10Run([]int{4, 6, 7}, 4+vTier(), true)
	vCover("c10.plain")
}

func vC10Run(alphabet []int, L int, coarse bool) {
	nn := 0
	tq := &TransmitLimitedQueue{RetransmitMult: 1 + vPick(2)}
	tq.NumNodes = func() int { return nn }
	model := &vQModel{}
	for step := 0; step < L; step++ {
		op := alphabet[vPick(len(alphabet))]
		switch {
		case op <= 4: // queue
			b := &vBcast{live: true}
			model.seq++
			b.seq = model.seq
			var bc Broadcast
			switch op {
			case 0, 1:
				b.name = []string{"x", "y"}[op]
				b.msg = make([]byte, 2)
				for _, o := range model.items {
					if o.live && o.name == b.name {
						o.live = false
					}
				}
				bc = vNamedB{b}
			case 2, 3:
				b.msg = make([]byte, 1+(op-2))
				bc = vUniqueB{b}
			case 4:
				b.msg = make([]byte, 2)
				b.group = 7
				b.ver = vPick(3)
				for _, o := range model.items {
					if o.live && o.group == 7 && o.ver <= b.ver {
						o.live = false
					}
				}
				bc = vPlainB{b}
			}
			model.items = append(model.items, b)
			tq.QueueBroadcast(bc)
		case op <= 6: // get
			if !coarse {
				nn = []int{0, 9, 99}[vPick(3)]
			}
			overhead := 2 * (op - 5)
			limit := 0
			if coarse {
				// room for one message up to room for two, symbolic
				nn = []int{0, 99}[vPick(2)]
				limit = vRange(4, 9)
			} else {
				limit = vRange(0, 9)
			}
			limitTr := retransmitLimit(tq.RetransmitMult, nn)
			got := tq.GetBroadcasts(overhead, limit)
			// reference: tier by tier, largest then newest that fits
			used := 0
			var want []*vBcast
			minT, maxT := 1<<30, -1
			for _, b := range model.items {
				b.taken = false
				if b.live {
					if b.tr < minT {
						minT = b.tr
					}
					if b.tr > maxT {
						maxT = b.tr
					}
				}
			}
			for t := minT; t <= maxT; {
				free := limit - used - overhead
				if free <= 0 {
					break
				}
				var best *vBcast
				for _, b := range model.items {
					if !b.live || b.taken || b.tr != t || len(b.msg) > free {
						continue
					}
					if best == nil || len(b.msg) > len(best.msg) || (len(b.msg) == len(best.msg) && b.seq > best.seq) {
						best = b
					}
				}
				if best == nil {
					t++
					continue
				}
				best.taken = true
				used += overhead + len(best.msg)
				want = append(want, best)
			}
			for _, b := range want {
				b.tr++
				if b.tr >= limitTr {
					b.live = false
				}
			}
			vAssert(len(got) == len(want), "c10.get.count")
			total := 0
			for i := range got {
				total += overhead + len(got[i])
				if i < len(want) {
					vAssert(&got[i][0] == &want[i].msg[0], "c10.get.choice-and-order")
				}
			}
			vAssert(total <= limit || len(got) == 0, "c10.get.fits-limit")
		case op == 7: // prune
			r := vPick(2)
			tq.Prune(r)
			// reference: drop from the "max" end (most transmitted, then smallest, then oldest) until <= r remain
			for model.live() > r {
				var worst *vBcast
				for _, b := range model.items {
					if !b.live {
						continue
					}
					if worst == nil || b.tr > worst.tr || (b.tr == worst.tr && (len(b.msg) < len(worst.msg) || (len(b.msg) == len(worst.msg) && b.seq < worst.seq))) {
						worst = b
					}
				}
				worst.live = false
			}
		case op == 8:
			tq.Reset()
			for _, b := range model.items {
				b.live = false
			}
		}
		// after every operation: size, exactly-once completion, one broadcast per name
		vAssert(tq.NumQueued() == model.live(), "c10.numqueued")
		for _, b := range model.items {
			if b.live {
				vAssert(b.fin == 0, "c10.finished-only-when-removed")
			} else {
				vAssert(b.fin == 1, "c10.finished-exactly-once")
			}
		}
	}
}

// C10 at the place the node actually retrieves from: Memberlist.getBroadcasts combines the transmit-limited queue
// with the delegate's user broadcasts (each framed with one type byte). Whatever is queued and whatever the
// delegate has - it honours the (overhead, limit) it is offered to the byte - the combined result plus the stated
// per-message overhead fits the limit, membership broadcasts come first, and user payloads are intact.
func H_C10_CombinedRetrieval() {
	conf := vBaseConfig()
	f := vNewML(conf)
	m := f.m
	f.del = &vDelegateRec{}
	conf.Delegate = f.del
	f.vAddSelf(3, nil)
	f.vAddConcreteAlive(vPeerA, 2)
	nq := vPick(3)
	for i := 0; i < nq; i++ {
		vOpt("enclen", []int{3, 6}[i%2])
		m.encodeBroadcastNotify([]string{"x", "y"}[i], suspectMsg, &suspect{Node: "x"}, nil)
	}
	f.del.bcast = [][]byte{vBytes(1), vBytes(2), vBytes(0), vBytes(1), vBytes(0), vBytes(2)}
	overhead := vRange(0, 4)
	limit := vRange(0, 48)
	msgs := m.getBroadcasts(overhead, limit)
	total := 0
	users := 0
	for i, b := range msgs {
		total += overhead + len(b)
		if i >= nq || len(b) == 0 || b[0] != byte(suspectMsg) {
			vAssert(len(b) >= 1 && b[0] == byte(userMsg), "c10.combined.user-message-framed")
			if len(b) >= 1 && users < len(f.del.bcast) {
				vAssert(vEqBytes(b[1:], f.del.bcast[users]), "c10.combined.user-payload-intact")
			}
			users++
		}
	}
	vAssert(total <= limit, "c10.combined.fits-the-limit")
	vAssert(users == f.del.bcastReturned, "c10.combined.every-user-message-passed-on")
	vCover("c10.combined")
}

func init() { vRegister("H_C10_CombinedRetrieval", H_C10_CombinedRetrieval) }
