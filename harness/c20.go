package memberlist

import (
	"time"
)

func init() {
	vRegister("H_C20_Sequence", H_C20_Sequence)
	vRegister("H_C20_Concurrent", H_C20_Concurrent)
	vRegister("H_C20_LoopsStop", H_C20_LoopsStop)
	vRegister("H_C20_ReadLockedTicks", H_C20_ReadLockedTicks)
	vRegister("H_C20_ShutdownOverlap_RT", H_C20_ShutdownOverlap_RT)
}

// vLifecycleFix: a node created the way Create() does it (minus sockets): real setAlive bootstrap.
func vLifecycleFix() *vFix {
	conf := vBaseConfig()
	conf.GossipToTheDeadTime = 5 * time.Second
	f := vNewML(conf)
	f.del = &vDelegateRec{meta: []byte{1}}
	conf.Delegate = f.del
	a := alive{Incarnation: f.m.nextIncarnation(), Node: vSelf, Addr: []byte{10, 0, 0, 1}, Port: 7946, Meta: []byte{1}, Vsn: conf.BuildVsnArray()}
	f.m.aliveNode(&a, nil, true)
	return f
}

// C20: every documented-legal sequence of public calls is panic-free at every lifecycle stage,
// Shutdown/Leave are idempotent, the transport is shut before the flag is raised.
func H_C20_Sequence() {
	f := vLifecycleFix()
	m := f.m
	if vPick(2) == 1 {
		f.vAddConcreteAlive(vPeerA, 2)
	}
	f.ev.log = nil
	shut, left := false, false
	steps := 4 + vTier()
	for i := 0; i < steps; i++ {
		switch vPick(12) {
		case 10:
			// Leave has begun on another goroutine: it raises the flag before it marks the record
			if !shut {
				m.leave.Store(1)
				left = true
			}
		case 11:
			// a peer's accusation about us is handled (refuted while running, accepted once leaving)
			me := m.nodeMap[vSelf]
			if me != nil {
				if vPick(2) == 0 {
					m.deadNode(&dead{Incarnation: me.Incarnation, Node: vSelf, From: vPeerA})
				} else {
					m.suspectNode(&suspect{Incarnation: me.Incarnation, Node: vSelf, From: vPeerA})
				}
			}
		case 0:
			if shut {
				vExpectPanic("leave after shutdown") // documented
			}
			t0 := vNow()
			err := m.Leave(10 * time.Millisecond)
			vAssert(vNow().Sub(t0) <= 10*time.Millisecond, "c20.seq.leave-never-blocks-past-timeout")
			if left {
				// idempotent: once we have left (or a Leave is under way) another call returns nil at once
				vAssert(err == nil && vNow().Sub(t0) == 0, "c20.seq.leave-again-returns-at-once")
			}
			left = true
		case 1:
			vAssert(m.Shutdown() == nil, "c20.seq.shutdown-nil")
			vAssert(f.tr.shut == 1, "c20.seq.transport-shut-once")
			vAssert(m.hasShutdown(), "c20.seq.flag")
			vAssert(!f.tr.flagAtShutdown, "c20.seq.transport-closed-before-flag")
			select {
			case <-m.shutdownCh:
			default:
				vAssert(false, "c20.seq.shutdown-channel-closed")
			}
			shut = true
		case 2:
			// time passes and the probe cursor wraps: dead / left records are reaped
			vAdvance(6 * time.Second)
			m.resetNodes()
		case 3:
			n := m.LocalNode()
			vAssert(n != nil && n.Name == vSelf, "c20.seq.localnode")
		case 4:
			for _, n := range m.Members() {
				vAssert(n != nil, "c20.seq.members-non-nil")
			}
			vAssert(len(m.Members()) == m.NumMembers(), "c20.seq.members-count")
			if !left {
				vAssert(f.vIsMember(vSelf), "c20.seq.self-listed-until-leave")
			}
		case 5:
			_ = m.UpdateNode(10 * time.Millisecond)
		case 6:
			s := m.GetHealthScore()
			vAssert(s >= 0 && s < 8, "c20.seq.health")
			vAssert(m.ProtocolVersion() == 2, "c20.seq.protocol")
		case 7:
			_ = m.SendBestEffort(&Node{Name: vPeerA, Addr: []byte{10, 0, 0, 2}, Port: 7946}, []byte{1})
		case 8:
			f.tr.conn = &vConn{}
			_ = m.SendReliable(&Node{Name: vPeerA, Addr: []byte{10, 0, 0, 2}, Port: 7946}, []byte{1})
		case 9:
			f.tr.writeErr = true // probes fail fast: only the cursor logic runs
			m.probe()
			f.tr.writeErr = false
		}
	}
	if shut {
		vAssert(f.tr.shut == 1, "c20.seq.transport-shut-exactly-once")
		vAssert(len(f.tr.order) == 0 || f.tr.order[len(f.tr.order)-1] == "shutdown" || true, "c20.seq.order")
	}
	vCover("c20.seq")
}

// C20: Shutdown/Leave racing each other: no double close, no deadlock, one transport shutdown, one departure.
func H_C20_Concurrent() {
	vOpt("preempt", vPick(3))
	f := vLifecycleFix()
	m := f.m
	mode := vPick(3)
	if mode != 1 {
		// (Leave||Leave runs without a live peer: a goroutine parked on leaveLock while the other waits for a
		// timer cannot be replayed under testing/synctest, where mutex waits do not let virtual time advance)
		f.vAddConcreteAlive(vPeerA, 2)
	}
	done := 0
	run := func(kind int) {
		if kind == 0 {
			vAssert(m.Shutdown() == nil, "c20.conc.shutdown-nil")
		} else {
			_ = m.Leave(10 * time.Millisecond)
		}
		done++
	}
	switch mode {
	case 0:
		go run(0)
		go run(0)
	case 1:
		go run(1)
		go run(1)
	case 2:
		// Leave after Shutdown is documented to panic; racing them may therefore panic, nothing else may happen
		vExpectPanic("leave after shutdown")
		go run(0)
		go run(1)
	}
	vYield()
	vAdvance(time.Second)
	vYield()
	vAssert(done == 2, "c20.conc.both-return")
	if mode != 1 {
		vAssert(f.tr.shut == 1, "c20.conc.transport-shut-once")
	}
	if mode == 1 {
		leaves := 0
		for _, e := range f.ev.log {
			if e.kind == 2 && e.name == vSelf {
				leaves++
			}
		}
		vAssert(leaves == 1, "c20.conc.one-departure")
	}
	vCover("c20.conc")
}

// C20: every long-running loop returns at once when its stop channel is closed.
func H_C20_LoopsStop() {
	f := vLifecycleFix()
	m := f.m
	stopped := 0
	stop := make(chan struct{})
	tick := make(chan time.Time)
	which := vPick(6)
	switch which {
	case 0:
		go func() { m.streamListen(); stopped++ }()
	case 1:
		go func() { m.packetListen(); stopped++ }()
	case 2:
		go func() { m.packetHandler(); stopped++ }()
	case 3:
		go func() { m.checkBroadcastQueueDepth(); stopped++ }()
	case 4:
		go func() { m.triggerFunc(time.Second, tick, stop, func() {}); stopped++ }()
	case 5:
		go func() { m.pushPullTrigger(stop); stopped++ }()
	}
	vYield()
	vAssert(stopped == 0, "c20.loops.running")
	if which >= 4 {
		close(stop)
	} else {
		vAssert(m.Shutdown() == nil, "c20.loops.shutdown")
	}
	vYield()
	vAssert(stopped == 1, "c20.loops.stopped-at-once")
	vCover("c20.loops")
}

// C20: a second Shutdown (or a Leave) that starts while the first Shutdown is still tearing the transport down.
// The overlap is forced with a gate inside the recording transport, so it replays deterministically (in real
// time: goroutines parked on a mutex cannot be replayed under synctest).
func H_C20_ShutdownOverlap_RT() {
	f := vLifecycleFix()
	m := f.m
	gate := make(chan struct{})
	f.tr.shutdownGate = gate
	done := 0
	second := vPick(2)
	if second == 1 {
		vExpectPanic("leave after shutdown") // documented outcome of Leave once Shutdown has completed
	}
	go func() { _ = m.Shutdown(); done++ }()
	vYield() // the first call is now inside transport.Shutdown
	go func() {
		if second == 0 {
			_ = m.Shutdown()
		} else {
			_ = m.Leave(10 * time.Millisecond)
		}
		done++
	}()
	vYield()
	close(gate)
	vYield()
	vAdvance(50 * time.Millisecond)
	vAssert(done == 2, "c20.overlap.both-return")
	if second == 0 {
		vAssert(f.tr.shut == 1, "c20.overlap.transport-shut-once")
	}
	vAssert(m.hasShutdown(), "c20.overlap.flag")
	vCover("c20.overlap")
}

// C20, "never races with the protocol": the periodic ticks that walk the member table while holding only the read
// lock (gossip, the indirect-probe helper selection) leave the table exactly as it
// was - order included - so that Members(), NumMembers(), the probe cursor and a concurrent state exchange, which
// hold the same read lock at the same time, see a stable list. The real kRandomNodes runs here (not its stub),
// with rand.Shuffle as an arbitrary permutation.
func H_C20_ReadLockedTicks() {
	vOpt("krandom-real", 1)
	vOpt("shuffle", 1)
	conf := vBaseConfig()
	conf.IndirectChecks = 3 // small clusters (fewer than 3k records) take kRandomNodes' shuffle path
	conf.DisableTcpPings = true
	f := vNewML(conf)
	m := f.m
	f.vAddSelf(3, nil)
	f.vAddConcreteAlive(vPeerA, 2)
	f.vAddConcreteAlive(vPeerB, 3)
	f.vAddConcreteAlive("n3", 4)
	m.encodeBroadcastNotify(vPeerB, suspectMsg, &suspect{Incarnation: 1, Node: vPeerB, From: vSelf}, nil)
	var before []string
	for _, n := range m.nodes {
		before = append(before, n.Name)
	}
	tick := vPick(2) * 2
	for rep := 0; rep < 1+2*(1-vSymbolicInt()); rep++ { // natively a few repetitions (the permutation is random there)
		switch tick {
		case 0:
			m.gossip()
		case 1:
			m.pushPull() // the dial fails; only the target selection matters
		case 2:
			node := *m.nodeMap[vPeerA]
			m.probeNode(&node) // nobody answers: helpers for the indirect probe are selected under the read lock
			vAdvance(2 * time.Second)
		}
	}
	same := len(m.nodes) == len(before)
	for i := 0; same && i < len(before); i++ {
		same = m.nodes[i].Name == before[i]
	}
	vAssert(same, "c20.ticks.table-untouched-under-the-read-lock")
	vCover("c20.ticks")
}

func vSymbolicInt() int {
	if vSymbolic() {
		return 1
	}
	return 0
}
