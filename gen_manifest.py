#!/usr/bin/env python3
"""Regenerates MANIFEST.json from props.py (claimed checks) + the not-applicable table below."""
import json, os, sys
sys.path.insert(0, os.path.dirname(os.path.abspath(__file__)))
from props import PROPS, NOT_APPLICABLE, LEVEL_TEXT

ALL = ["C%02d" % i for i in range(1, 21)]
checks = []
for pid in ALL:
    if pid not in PROPS:
        continue
    lt = LEVEL_TEXT.get(pid, {})
    checks.append({
        "property_id": pid,
        "quick_cmd": "./check %s quick" % pid,
        "thorough_cmd": "./check %s thorough" % pid,
        "evidence_file": "/verif/evidence/%s.json" % pid,
        "replay_cmd_template": "./check --replay {path}",
        "engine": "symgo",
        "level_claimed": {"category": "model_checking",
                          "text": lt.get("text", "bounded symbolic execution of the real SSA; every obligation decided by z3 for all values of the symbolic inputs within the stated bounds"),
                          "design_ref": "DESIGN.md §4 " + pid},
        "level_note": lt.get("note", "trusted: go/ssa lowering, the engine's SSA semantics (validated per run by native replay of witness models), z3; stubs listed in evidence.stubs_used"),
        "technique": lt.get("technique", "SSA symbolic execution + SMT (QF_BV, z3) with native replay of models"),
    })
na = [{"property_id": p, "reason": r} for p, r in sorted(NOT_APPLICABLE.items()) if p not in PROPS]
for pid in ALL:
    if pid not in PROPS and pid not in NOT_APPLICABLE:
        na.append({"property_id": pid, "reason": "check not built yet in this session (planned in DESIGN.md §4)"})
m = {
    "version": 1,
    "setup_cmd": "cd /verif/engine && PATH=/opt/veriftools/go1.26.8/bin:$PATH GOTOOLCHAIN=local GOFLAGS=-mod=mod GOPROXY=off GOSUMDB=off go build -o /verif/bin/symgo .",
    "hooks": {"guard": "verif", "enable": "none needed: harnesses are injected with -overlay (packages.Config.Overlay / go test -overlay); no file in /repo is changed",
              "baseline_off_cmd": "cd /repo && go test -vet=off -count=1 -timeout 25m ./...",
              "source_commits": [], "add_only": True},
    "engines": [{"name": "symgo", "path": "/verif/engine", "serves_properties": [c["property_id"] for c in checks],
                 "kind_free_text": "own go/ssa symbolic executor (x/tools v0.50.0, go1.26.8) emitting SMT-LIB2 QF_BV to a persistent z3; in-package harnesses by overlay; native replay of every model"}],
    "checks": checks,
    "not_applicable": sorted(na, key=lambda x: x["property_id"]),
    "notes": "exit 0 = held within bounds; exit 1 + VIOLATION line = reproduced counterexample; exit 2 + INCONCLUSIVE = neither (solver unknown, unwinding bound hit, unsupported code, or an unreproduced model).",
}
json.dump(m, open(os.path.join(os.path.dirname(os.path.abspath(__file__)), "MANIFEST.json"), "w"), indent=1)
print("claimed:", [c["property_id"] for c in checks])
