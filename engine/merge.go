package main

// If-conversion of simple triangles/diamonds: when a symbolic branch guards only pure,
// non-trapping straight-line code that rejoins immediately, both sides are evaluated and the
// join's phis become ite-terms instead of forking the path. Anything unusual falls back to forking.

import (
	"go/token"
	"go/types"

	"golang.org/x/tools/go/ssa"
)

const mergeMaxInstrs = 16

// pureBlock reports whether b (entered only from pred) is straight-line, side-effect free and ends in a Jump.
func (fr *frame) pureBlock(b, pred *ssa.BasicBlock) (*ssa.BasicBlock, bool) {
	if len(b.Preds) != 1 || b.Preds[0] != pred || len(b.Succs) != 1 || len(b.Instrs) > mergeMaxInstrs {
		return nil, false
	}
	for i, in := range b.Instrs {
		if i == len(b.Instrs)-1 {
			if _, ok := in.(*ssa.Jump); !ok {
				return nil, false
			}
			break
		}
		switch x := in.(type) {
		case *ssa.DebugRef, *ssa.ChangeType, *ssa.Field, *ssa.Extract:
		case *ssa.BinOp:
			if x.Op == token.QUO || x.Op == token.REM {
				return nil, false
			}
		case *ssa.Convert:
			if _, _, ok := intInfo(x.Type()); !ok {
				return nil, false
			}
			if _, _, ok := intInfo(x.X.Type()); !ok {
				return nil, false
			}
		case *ssa.UnOp:
			if x.Op == token.ARROW {
				return nil, false
			}
		case *ssa.IndexAddr, *ssa.FieldAddr:
		default:
			return nil, false
		}
	}
	return b.Succs[0], true
}

// evalPure executes the non-terminator instructions of b; returns false if something would trap
// or is not concretely safe (the caller then forks as usual). No obligations are raised here.
func (fr *frame) evalPure(b *ssa.BasicBlock) (ok bool) {
	defer func() {
		if r := recover(); r != nil {
			switch r.(type) {
			case mergeBail:
				ok = false
			default:
				panic(r)
			}
		}
	}()
	for _, in := range b.Instrs[:len(b.Instrs)-1] {
		switch x := in.(type) {
		case *ssa.DebugRef:
		case *ssa.ChangeType:
			fr.env[x] = fr.get(x.X)
		case *ssa.Field:
			fr.env[x] = copyVal(fr.get(x.X).(StructVal)[x.Field])
		case *ssa.Extract:
			fr.env[x] = fr.get(x.Tuple).(TupleVal)[x.Index]
		case *ssa.BinOp:
			xv, yv := fr.get(x.X), fr.get(x.Y)
			if _, isT := xv.(*Term); !isT {
				if x.Op != token.EQL && x.Op != token.NEQ {
					panic(mergeBail{})
				}
			}
			fr.env[x] = fr.binop(x.Op, x.X.Type(), xv, yv, x.Pos())
		case *ssa.Convert:
			fr.env[x] = fr.conv(x.Type(), x.X.Type(), fr.get(x.X))
		case *ssa.UnOp:
			v := fr.get(x.X)
			if x.Op == token.MUL {
				addr, isP := v.(*Value)
				if !isP || addr == nil {
					panic(mergeBail{})
				}
				fr.env[x] = load(addr)
			} else {
				if _, isT := v.(*Term); !isT {
					panic(mergeBail{})
				}
				fr.env[x] = fr.unop(x, v)
			}
		case *ssa.FieldAddr:
			p, isP := fr.get(x.X).(*Value)
			if !isP || p == nil {
				panic(mergeBail{})
			}
			fr.env[x] = &(*p).(StructVal)[x.Field]
		case *ssa.IndexAddr:
			idx, isT := fr.get(x.Index).(*Term)
			if !isT || !idx.IsConst() {
				panic(mergeBail{})
			}
			_, signed, _ := intInfo(x.Index.Type())
			i := int64(idx.Val)
			if signed {
				i = sx(idx.Val, idx.W)
			}
			switch c := fr.get(x.X).(type) {
			case SliceVal:
				if i < 0 || i >= int64(c.N) {
					panic(mergeBail{})
				}
				fr.env[x] = &c.Back[i]
			case *Value:
				if c == nil {
					panic(mergeBail{})
				}
				a := (*c).(ArrayVal)
				if i < 0 || i >= int64(len(a)) {
					panic(mergeBail{})
				}
				fr.env[x] = &a[i]
			default:
				panic(mergeBail{})
			}
		}
	}
	return true
}

type mergeBail struct{}

// tryMerge attempts if-conversion at instr (cond symbolic). Returns the join block on success.
func (fr *frame) tryMerge(instr *ssa.If, cond *Term) *ssa.BasicBlock {
	if fr.p.ex.noMerge {
		return nil
	}
	cur := fr.block
	T, F := cur.Succs[0], cur.Succs[1]
	var join *ssa.BasicBlock
	var tBlk, fBlk *ssa.BasicBlock // nil = edge goes straight from cur to join
	if jt, ok := fr.pureBlock(T, cur); ok && jt == F {
		join, tBlk = F, T // triangle: then-side only
	} else if jf, ok := fr.pureBlock(F, cur); ok && jf == T {
		join, fBlk = T, F
	} else if jt, ok1 := fr.pureBlock(T, cur); ok1 {
		if jf, ok2 := fr.pureBlock(F, cur); ok2 && jt == jf {
			join, tBlk, fBlk = jt, T, F
		}
	}
	if join == nil || len(join.Preds) != 2 {
		return nil
	}
	// phis must all be mergeable: decide after evaluating both sides
	if tBlk != nil && !fr.evalPure(tBlk) {
		return nil
	}
	if fBlk != nil && !fr.evalPure(fBlk) {
		return nil
	}
	predT, predF := cur, cur
	if tBlk != nil {
		predT = tBlk
	}
	if fBlk != nil {
		predF = fBlk
	}
	type upd struct {
		phi *ssa.Phi
		v   Value
	}
	var ups []upd
	for _, in := range join.Instrs {
		phi, ok := in.(*ssa.Phi)
		if !ok {
			break
		}
		var vt, vf Value
		for i, pr := range join.Preds {
			if pr == predT {
				vt = fr.get(phi.Edges[i])
			}
			if pr == predF {
				vf = fr.get(phi.Edges[i])
			}
		}
		tt, ok1 := vt.(*Term)
		tf, ok2 := vf.(*Term)
		if !ok1 || !ok2 || tt.W != tf.W {
			return nil
		}
		ups = append(ups, upd{phi, Ite(cond, tt, tf)})
	}
	for _, u := range ups {
		fr.env[u.phi] = u.v
	}
	fr.p.merges++
	return join
}

var _ = types.Typ
