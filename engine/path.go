package main

// Path = one execution of a harness under a decision prefix. Branching,
// assumptions, obligations, concretisation and nondeterministic inputs live here.

import (
	"fmt"
	"go/token"
	"go/types"
	"os"
	"sort"
	"strings"

	"golang.org/x/tools/go/ssa"
)

type Decision struct {
	Alt    int   `json:"a"`
	N      int   `json:"n"` // 1 = forced
	Aux    int64 `json:"x,omitempty"`
	HasAux bool  `json:"h,omitempty"`
}

type NondetRec struct {
	Kind string // u8,u16,u32,u64,int,bool,pick,bytes
	T    *Term
	Val  uint64 // filled when concretised by model
}

type Violation struct {
	Harness  string     `json:"harness"`
	Kind     string     `json:"kind"` // assert, panic, index, nil, div, deadlock, ...
	ID       string     `json:"id"`   // vAssert id or kind@func
	Func     string     `json:"func"`
	Pos      string     `json:"pos"`
	Detail   string     `json:"detail"`
	Vec      []uint64   `json:"vec"`
	Kinds    []string   `json:"kinds"`
	Decs     []Decision `json:"decisions"`
	Stack    []string   `json:"stack,omitempty"`
	Conclusive bool     `json:"conclusive"`
}

type pathAbort struct {
	reason string // "infeasible", "violation-stop", "unsupported: ...", "unwind: ...", "done"
}

type threadKill struct{}

type targetPanic struct {
	v   Value
	pos string
	fn  string
}

type Path struct {
	ex     *Explorer
	w      *worker
	sv     *Solver
	prefix []Decision
	dec    []Decision
	pcN    int
	model  map[string]uint64
	memo   map[*Term]uint64
	nondet []NondetRec
	varSeq int

	globals map[*ssa.Global]*Value
	inited  map[*ssa.Package]bool

	threads []*thread
	cur     *thread
	dead    bool
	preempt int

	now    *Term
	timers []*timerObj
	timerOf map[*Value]*timerObj
	locks  map[*Value]*lockState

	covers     map[string]bool
	violations []Violation
	inconc     []string
	havocs     map[string]int

	steps      int64
	branches   int
	oblTotal   int
	oblSolver  int
	oblConcrete int
	unwind     int
	loopCount  map[*frame]map[*ssa.BasicBlock]int
	expectPanic string

	toks     []*encTokenRec
	tokSeq   int
	decodeArbOff bool
	notes    []string
	depth    int
	pendingEscape interface{}
	hostileBudget int
	allocTerm     *Term
	forgedFirst   int
	hostileUsed   int
	callBounds    map[string]int
	callCounts    map[string]int
	sealSeq, rndSeq, lzwSeq int
	sealsT   []*sealRecT
	lzws     []*lzwRec
	merges   int
	chanSeq  int
	crcs     []crcRec
	optShuffle bool
	// cluster harness options: larger thread/timer bounds, one scheduling order per timing assignment
	// (lowest thread id first), kRandomNodes without the rotation fork
	maxThreadsOpt, maxTimersOpt int
	schedDet, kRandomDet      bool
	kRandomReal               bool
	lzwSizes                  bool
	randZero                  bool
	ranges                    map[string]ival // declared vRange bounds (part of the path condition)
	intervalCuts              int
	encLen   int
	aeadTamper bool
}

func (p *Path) fresh(prefix string, w int) *Term {
	p.varSeq++
	return Var(fmt.Sprintf("%s_%d", prefix, p.varSeq), w)
}

func (p *Path) abort(reason string) { panic(pathAbort{reason}) }

func (p *Path) evalModel(t *Term) uint64 {
	if p.memo == nil {
		p.memo = map[*Term]uint64{}
	}
	return t.Eval(p.model, p.memo)
}

func (p *Path) setModel(m map[string]uint64) {
	p.model = m
	p.memo = nil
}

func (p *Path) addPC(c *Term) {
	if c.IsConst() {
		return
	}
	p.pcN++
	p.sv.Assert(c)
}

// ensureModel makes sure p.model satisfies the current PC.
func (p *Path) ensureModel() bool {
	if p.model != nil {
		return true
	}
	r, m := p.sv.Check(nil, true)
	if r == Sat {
		p.setModel(m)
		return true
	}
	if r == Unsat {
		p.abort("infeasible")
	}
	p.inconc = append(p.inconc, "solver unknown on path condition: "+p.sv.ErrSeen)
	p.sv.ErrSeen = ""
	return false
}

// feasible reports whether PC ∧ c is satisfiable (unknown counts as feasible). Updates nothing.
func (p *Path) feasible(c *Term) (bool, map[string]uint64) {
	if c.IsConst() {
		return c.Val == 1, nil
	}
	if p.model != nil && p.evalModel(c) == 1 {
		return true, p.model
	}
	r, m := p.sv.Check(c, true)
	switch r {
	case Sat:
		return true, m
	case Unsat:
		return false, nil
	}
	p.inconc = append(p.inconc, "solver unknown in feasibility: "+p.sv.ErrSeen)
	p.sv.ErrSeen = ""
	return true, nil
}

func (p *Path) branch(c *Term) bool {
	r := p.branch0(c)
	if p.schedDet && !c.IsConst() {
		p.narrow(c, r)
	}
	return r
}

func (p *Path) branch0(c *Term) bool {
	if c.W != 0 {
		panic("branch on non-bool")
	}
	if c.IsConst() {
		return c.Val == 1
	}
	if p.schedDet {
		if v, ok := p.intervalBool(c); ok {
			p.intervalCuts++
			return v
		}
		if os.Getenv("SYMGO_DEBUG_BRANCH") != "" && p.branches < 40 {
			fmt.Fprintf(os.Stderr, "BRANCH %s ranges=%v\n", c.String(), p.ranges)
		}
	}
	p.branches++
	idx := len(p.dec)
	if idx < len(p.prefix) {
		d := p.prefix[idx]
		p.dec = append(p.dec, d)
		if d.Alt == 0 {
			p.addPC(c)
		} else {
			p.addPC(Not(c))
		}
		p.setModel(nil)
		return d.Alt == 0
	}
	ft, mt := p.feasible(c)
	ff, mf := p.feasible(Not(c))
	switch {
	case ft && ff:
		p.dec = append(p.dec, Decision{Alt: 0, N: 2})
		p.ex.push(p, idx, Decision{Alt: 1, N: 2})
		p.addPC(c)
		p.setModel(mt)
		return true
	case ft:
		p.dec = append(p.dec, Decision{Alt: 0, N: 1})
		p.addPC(c)
		if mt != nil {
			p.setModel(mt)
		}
		return true
	case ff:
		p.dec = append(p.dec, Decision{Alt: 1, N: 1})
		p.addPC(Not(c))
		if mf != nil {
			p.setModel(mf)
		}
		return false
	}
	p.abort("infeasible")
	return false
}

// choose forks n ways without consulting the solver.
func (p *Path) choose(n int) int {
	if n <= 1 {
		return 0
	}
	idx := len(p.dec)
	if idx < len(p.prefix) {
		d := p.prefix[idx]
		p.dec = append(p.dec, d)
		return d.Alt
	}
	p.dec = append(p.dec, Decision{Alt: 0, N: n})
	for k := n - 1; k >= 1; k-- {
		p.ex.push(p, idx, Decision{Alt: k, N: n})
	}
	return 0
}

func (p *Path) assume(c *Term) {
	if c.IsConst() {
		if c.Val == 0 {
			p.abort("infeasible")
		}
		return
	}
	ok, m := p.feasible(c)
	if !ok {
		p.abort("infeasible")
	}
	p.addPC(c)
	p.setModel(m)
}

// concretize picks a concrete value for t, forking over all feasible values.
func (p *Path) concretize(t *Term, what string) uint64 {
	for n := 0; ; n++ {
		if t.IsConst() {
			return t.Val
		}
		if n > p.ex.maxConcretize {
			p.inconc = append(p.inconc, "concretisation of "+what+" exceeds bound")
			p.abort("concretize-bound")
		}
		idx := len(p.dec)
		if idx < len(p.prefix) {
			d := p.prefix[idx]
			p.dec = append(p.dec, d)
			v := BV(t.W, uint64(d.Aux))
			if d.Alt == 0 {
				p.addPC(Cmp(OEq, t, v))
				p.setModel(nil)
				return v.Val
			}
			p.addPC(Not(Cmp(OEq, t, v)))
			p.setModel(nil)
			continue
		}
		if !p.ensureModel() {
			p.abort("unknown")
		}
		v := p.evalModel(t)
		vt := BV(t.W, v)
		ne := Not(Cmp(OEq, t, vt))
		other, _ := p.feasible(ne)
		if other {
			p.dec = append(p.dec, Decision{Alt: 0, N: 2, Aux: int64(v), HasAux: true})
			p.ex.push(p, idx, Decision{Alt: 1, N: 2, Aux: int64(v), HasAux: true})
		} else {
			p.dec = append(p.dec, Decision{Alt: 0, N: 1, Aux: int64(v), HasAux: true})
		}
		p.addPC(Cmp(OEq, t, vt))
		return v
	}
}

// obligation: c must hold on every model of PC. Afterwards c is assumed.
func (p *Path) obligation(c *Term, kind, id, detail string, fr *frame, pos token.Pos) {
	p.oblTotal++
	if c.IsConst() {
		p.oblConcrete++
		if c.Val == 1 {
			return
		}
		// concretely false under this path: witness = any model of PC
		if p.ensureModel() {
			p.recordViolation(kind, id, detail, fr, pos, p.model)
		}
		p.abort("violation-stop")
	}
	p.oblSolver++
	nc := Not(c)
	if p.model != nil && p.evalModel(nc) == 1 {
		p.recordViolation(kind, id, detail, fr, pos, p.model)
	} else {
		r, m := p.sv.Check(nc, true)
		switch r {
		case Sat:
			p.recordViolation(kind, id, detail, fr, pos, m)
		case Unknown:
			p.inconc = append(p.inconc, fmt.Sprintf("obligation %s/%s undecided: %s", kind, id, p.sv.ErrSeen))
			p.sv.ErrSeen = ""
		}
	}
	p.assume(c)
}

func (p *Path) posStr(pos token.Pos) string {
	if pos == token.NoPos {
		return ""
	}
	ps := p.ex.prog.Fset.Position(pos)
	f := ps.Filename
	if i := strings.LastIndex(f, "/"); i >= 0 {
		f = f[i+1:]
	}
	return fmt.Sprintf("%s:%d", f, ps.Line)
}

func (p *Path) recordViolation(kind, id, detail string, fr *frame, pos token.Pos, model map[string]uint64) {
	v := Violation{Harness: p.ex.entry, Kind: kind, ID: id, Detail: detail, Conclusive: true}
	if fr != nil {
		v.Func = fr.fn.String()
		for f := fr; f != nil; f = f.caller {
			v.Stack = append(v.Stack, f.fn.String())
			if len(v.Stack) > 12 {
				break
			}
		}
		// innermost memberlist function
		for f := fr; f != nil; f = f.caller {
			if f.fn.Pkg != nil && f.fn.Pkg == p.ex.mainPkg && !strings.HasPrefix(f.fn.Name(), "v") && !p.ex.isHarnessFn(f.fn) {
				v.Func = f.fn.String()
				break
			}
		}
	}
	v.Pos = p.posStr(pos)
	memo := map[*Term]uint64{}
	for _, nd := range p.nondet {
		v.Vec = append(v.Vec, nd.T.Eval(model, memo))
		v.Kinds = append(v.Kinds, nd.Kind)
	}
	v.Decs = append([]Decision{}, p.dec...)
	p.violations = append(p.violations, v)
}

func (p *Path) cover(id string) {
	if p.covers == nil {
		p.covers = map[string]bool{}
	}
	p.covers[id] = true
}

// nondeterministic input of width w recorded for replay.
func (p *Path) input(kind string, w int) *Term {
	t := p.fresh("in_"+kind, w)
	p.nondet = append(p.nondet, NondetRec{Kind: kind, T: t})
	return t
}

func (p *Path) havoc(what string, w int) *Term {
	if p.havocs == nil {
		p.havocs = map[string]int{}
	}
	p.havocs[what]++
	return p.fresh("hv", w)
}

func sortedKeys(m map[string]bool) []string {
	var ks []string
	for k := range m {
		ks = append(ks, k)
	}
	sort.Strings(ks)
	return ks
}

var _ = types.Typ

// hostile: one more attacker-chosen decode result on this path; paths beyond the budget are cut (stated bound).
func (p *Path) hostile(what string) {
	p.hostileUsed++
	if p.hostileBudget > 0 && p.hostileUsed > p.hostileBudget {
		p.note(fmt.Sprintf("bound: at most %d attacker-chosen decode results (msgpack/lzw/forged plaintext) per path; deeper paths are cut", p.hostileBudget))
		p.abort("bounded")
	}
}
