package memberlist

// Native bodies of the harness vocabulary. Under the symbolic engine (symgo) every
// v* function below is intercepted by name and these bodies are never executed;
// in a native replay (go test -overlay) they read the solver's model back as a vector.

import (
	"fmt"
	"io"
	"log"
	"os"
	"runtime"
	"testing/synctest"
	"time"
)

var (
	vVec      []uint64
	vKinds    []string
	vPos      int
	vCovers   []string
	vHarness  = map[string]func(){}
	vExpected string
)

type vAssertFail struct{ id string }
type vAssumeFail struct{}

func vRegister(name string, f func()) { vHarness[name] = f }

func vNext(kind string) uint64 {
	if vPos >= len(vVec) {
		panic(fmt.Sprintf("verif: replay vector exhausted at %d (want %s)", vPos, kind))
	}
	if vPos < len(vKinds) && vKinds[vPos] != kind {
		panic(fmt.Sprintf("verif: replay vector kind mismatch at %d: have %s want %s", vPos, vKinds[vPos], kind))
	}
	v := vVec[vPos]
	vPos++
	return v
}

func vU8() uint8   { return uint8(vNext("u8")) }
func vU16() uint16 { return uint16(vNext("u16")) }
func vU32() uint32 { return uint32(vNext("u32")) }
func vU64() uint64 { return vNext("u64") }
func vInt() int    { return int(int64(vNext("int"))) }
func vBool() bool  { return vNext("bool") == 1 }
func vBytes(n int) []byte {
	b := make([]byte, n)
	for i := range b {
		b[i] = vU8()
	}
	return b
}
func vPick(n int) int { return int(vNext("pick")) }
func vRange(lo, hi int) int {
	v := int(int64(vNext("int")))
	if v < lo || v > hi {
		panic(vAssumeFail{})
	}
	return v
}
// vSize: a payload size in lo..hi (the engine explores representatives; the replay driver may sweep the range)
func vSize(lo, hi int) int {
	v := int(int64(vNext(fmt.Sprintf("size:%d:%d", lo, hi))))
	if v < lo || v > hi {
		panic(vAssumeFail{})
	}
	return v
}
func vKnob(lo, hi int) int { return vSize(lo, hi) }
func vAssume(c bool) {
	if !c {
		panic(vAssumeFail{})
	}
}
func vAssert(c bool, id string) {
	if !c {
		panic(vAssertFail{id})
	}
}
func vCover(id string)            { vCovers = append(vCovers, id) }
func vUnwind(k int)               {}
func vExpectPanic(substr string)  { vExpected = substr }
func vSymbolic() bool             { return false }
func vAnd(a, b bool) bool         { return a && b }
func vOr(a, b bool) bool          { return a || b }
func vImp(a, b bool) bool         { return !a || b }
func vIteInt(c bool, a, b int) int {
	if c {
		return a
	}
	return b
}
func vEqBytes(a, b []byte) bool { return string(a) == string(b) }
func vEqStr(a, b string) bool   { return a == b }
func vNow() time.Time           { return time.Now() }

// Native replays run inside a testing/synctest bubble: time is virtual and exact.
var vRealTime bool

func vAdvance(d time.Duration) {
	if d > 0 {
		time.Sleep(d)
	}
	if vRealTime {
		time.Sleep(30 * time.Millisecond)
		return
	}
	synctest.Wait()
}
func vYield() {
	if vRealTime {
		time.Sleep(30 * time.Millisecond)
		return
	}
	synctest.Wait()
}

// vLiveGoroutines: goroutines started by the harness that are still alive once everything else has run as
// far as it can (engine: interpreter threads; natively: the runtime's count against the baseline at start).
func vLiveGoroutines() int {
	vYield()
	return runtime.NumGoroutine() - vGoBase
}

var vGoBase int

func vOpt(name string, v int)   {}
func vTimerPending(t *time.Timer) bool { return true }
func vTimerRemaining(t *time.Timer) time.Duration { return 0 }
func vFire(t *time.Timer) bool  { return false }

// vRunReplay runs one harness natively on a vector and reports the outcome on stdout.
func vRunReplay(entry string, vec []uint64, kinds []string) (outcome string) {
	vVec, vKinds, vPos, vCovers, vExpected = vec, kinds, 0, nil, ""
	vGoBase = runtime.NumGoroutine()
	f := vHarness[entry]
	if f == nil {
		return "VREPLAY error=unknown-harness"
	}
	defer func() {
		if r := recover(); r != nil {
			switch x := r.(type) {
			case vAssertFail:
				outcome = "VREPLAY assert=" + x.id
			case vAssumeFail:
				outcome = "VREPLAY assume-failed"
			default:
				msg := fmt.Sprint(r)
				if vExpected != "" && containsStr(msg, vExpected) {
					outcome = "VREPLAY ok expected-panic"
					return
				}
				outcome = "VREPLAY panic=" + msg
				fmt.Fprintf(os.Stderr, "panic during replay: %v\n", r)
			}
		}
	}()
	f()
	return "VREPLAY ok"
}

func containsStr(s, sub string) bool {
	for i := 0; i+len(sub) <= len(s); i++ {
		if s[i:i+len(sub)] == sub {
			return true
		}
	}
	return false
}

func vLogger() *log.Logger { return log.New(io.Discard, "", 0) }

// vTier: 0 = quick bounds, 1 = thorough bounds (set by the engine flag / the replay file).
var vTierVal int

func vTier() int { return vTierVal }

// vIsSealed: natively, buf decrypts and authenticates under key with ad.
func vIsSealed(buf, key, ad []byte) bool {
	_, err := decryptPayload([][]byte{key}, append([]byte(nil), buf...), ad)
	return err == nil
}

// vAllocated: bytes requested by size-dependent allocations so far (engine: sum over make() calls with a
// non-constant size; natively: the runtime's cumulative allocation counter).
func vAllocated() uint64 {
	var ms runtime.MemStats
	runtime.ReadMemStats(&ms)
	return ms.TotalAlloc
}

func vDumpThreads() {}
