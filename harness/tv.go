package memberlist

import (
	"bytes"
	"time"
)

func init() {
	vRegister("H_TV_SuiteVectors", H_TV_SuiteVectors)
}

// Translator validation: the repository's own unit-test vectors (copied from state_test.go, suspicion_test.go,
// awareness_test.go, util_test.go, label_test.go, security_test.go, keyring_test.go, queue_test.go) are pushed
// through the real functions under the engine; the expected values are the ones the suite asserts natively.
// A wrong SSA semantics in the engine shows up here as a (concretely false) assertion.
func H_TV_SuiteVectors() {
	// TestVerifyProtocol
	type vp struct {
		a, b [][3]uint8
		ok   bool
	}
	for _, tc := range []vp{
		{[][3]uint8{{0, 0, 0}}, [][3]uint8{{0, 0, 0}}, true},
		{[][3]uint8{{0, 0, 0}}, [][3]uint8{{0, 1, 0}}, true},
		{[][3]uint8{{0, 0, 0}}, [][3]uint8{{1, 1, 1}}, false},
		{[][3]uint8{{0, 1, 0}, {0, 2, 1}}, [][3]uint8{{1, 3, 1}}, false},
		{[][3]uint8{{0, 3, 2}, {0, 2, 0}}, [][3]uint8{{0, 2, 1}, {0, 5, 0}}, true},
	} {
		for pass := 0; pass < 2; pass++ {
			m := &Memberlist{nodeMap: map[string]*nodeState{}}
			for _, n := range tc.a {
				ns := &nodeState{State: StateAlive}
				if pass == 0 {
					ns.PMin, ns.PMax, ns.PCur = n[0], n[1], n[2]
				} else {
					ns.DMin, ns.DMax, ns.DCur = n[0], n[1], n[2]
				}
				m.nodes = append(m.nodes, ns)
			}
			var remote []pushNodeState
			for _, n := range tc.b {
				v := []uint8{n[0], n[1], n[2], 0, 0, 0}
				if pass == 1 {
					v = []uint8{0, 0, 0, n[0], n[1], n[2]}
				}
				remote = append(remote, pushNodeState{State: StateAlive, Vsn: v})
			}
			vAssert((m.verifyProtocol(remote) == nil) == tc.ok, "tv.verifyProtocol")
		}
	}
	// TestSuspicion_remainingSuspicionTime
	type rs struct {
		n, k                   int32
		elapsed, min, max, exp time.Duration
	}
	for _, c := range []rs{
		{0, 3, 0, 2 * time.Second, 30 * time.Second, 30 * time.Second},
		{1, 3, 2 * time.Second, 2 * time.Second, 30 * time.Second, 14 * time.Second},
		{2, 3, 3 * time.Second, 2 * time.Second, 30 * time.Second, 4810 * time.Millisecond},
		{3, 3, 4 * time.Second, 2 * time.Second, 30 * time.Second, -2 * time.Second},
		{4, 3, 5 * time.Second, 2 * time.Second, 30 * time.Second, -3 * time.Second},
		{5, 3, 10 * time.Second, 2 * time.Second, 30 * time.Second, -8 * time.Second},
	} {
		vAssert(remainingSuspicionTime(c.n, c.k, c.elapsed, c.min, c.max) == c.exp, "tv.remainingSuspicionTime")
	}
	// TestAwareness
	aw := newAwareness(8, nil)
	for _, c := range []struct {
		delta, score int
		timeout      time.Duration
	}{{0, 0, time.Second}, {-1, 0, time.Second}, {-10, 0, time.Second}, {1, 1, 2 * time.Second}, {-1, 0, time.Second}, {10, 7, 8 * time.Second},
		{-1, 6, 7 * time.Second}, {-1, 5, 6 * time.Second}, {-1, 4, 5 * time.Second}, {-1, 3, 4 * time.Second}, {-1, 2, 3 * time.Second},
		{-1, 1, 2 * time.Second}, {-1, 0, time.Second}, {-1, 0, time.Second}} {
		aw.ApplyDelta(c.delta)
		vAssert(aw.GetHealthScore() == c.score && aw.ScaleTimeout(time.Second) == c.timeout, "tv.awareness")
	}
	// TestSuspicionTimeout, TestRetransmitLimit, TestPushPullScale
	for n, exp := range map[int]time.Duration{5: 1000 * time.Millisecond, 10: 1000 * time.Millisecond, 50: 1698 * time.Millisecond,
		100: 2000 * time.Millisecond, 500: 2698 * time.Millisecond, 1000: 3000 * time.Millisecond} {
		vAssert(suspicionTimeout(3, n, time.Second)/3 == exp, "tv.suspicionTimeout")
	}
	vAssert(retransmitLimit(3, 0) == 0 && retransmitLimit(3, 1) == 3 && retransmitLimit(3, 99) == 6, "tv.retransmitLimit")
	vAssert(pushPullScale(time.Second, 32) == time.Second && pushPullScale(time.Second, 33) == 2*time.Second &&
		pushPullScale(time.Second, 64) == 2*time.Second && pushPullScale(time.Second, 65) == 3*time.Second && pushPullScale(time.Second, 128) == 3*time.Second, "tv.pushPullScale")
	// label_test.go
	out, err := AddLabelHeaderToPacket([]byte("something"), "foo")
	vAssert(err == nil && bytes.Equal(out, append([]byte{byte(hasLabelMsg), 3, 'f', 'o', 'o'}, []byte("something")...)), "tv.addLabel")
	rest, lbl, err := RemoveLabelHeaderFromPacket(out)
	vAssert(err == nil && lbl == "foo" && string(rest) == "something", "tv.removeLabel")
	_, _, err = RemoveLabelHeaderFromPacket([]byte{byte(hasLabelMsg), 0, 'x'})
	vAssert(err != nil, "tv.removeLabel-empty")
	_, _, err = RemoveLabelHeaderFromPacket([]byte{byte(hasLabelMsg), 2, 'x'})
	vAssert(err != nil, "tv.removeLabel-truncated")
	// TestDecodeCompoundMessage_Trunc-like
	cm := makeCompoundMessage([][]byte{[]byte("abc"), []byte("de"), []byte("f")}).Bytes()
	tr, parts, err := decodeCompoundMessage(cm[1:])
	vAssert(err == nil && tr == 0 && len(parts) == 3 && string(parts[0]) == "abc" && string(parts[2]) == "f", "tv.compound")
	tr, parts, err = decodeCompoundMessage(cm[1 : len(cm)-2])
	vAssert(err == nil && tr == 2 && len(parts) == 1, "tv.compound-trunc")
	// TestPKCS7 / encryptedLength
	var buf bytes.Buffer
	buf.Write([]byte{1, 2, 3})
	pkcs7encode(&buf, 0, 16)
	vAssert(buf.Len() == 16 && buf.Bytes()[15] == 13 && len(pkcs7decode(buf.Bytes(), 16)) == 3, "tv.pkcs7")
	vAssert(encryptedLength(0, 0) == 45 && encryptedLength(1, 0) == 29 && encryptedLength(0, 16) == 61 && encryptedLength(1, 16) == 45, "tv.encryptedLength")
	// keyring_test.go script
	k1, k2, k3 := bytes.Repeat([]byte{1}, 16), bytes.Repeat([]byte{2}, 16), bytes.Repeat([]byte{3}, 16)
	kr, err := NewKeyring(nil, k1)
	vAssert(err == nil && len(kr.GetKeys()) == 1, "tv.keyring.new")
	vAssert(kr.AddKey(k2) == nil && kr.AddKey(k3) == nil && len(kr.GetKeys()) == 3 && bytes.Equal(kr.GetPrimaryKey(), k1), "tv.keyring.add")
	vAssert(kr.UseKey(k3) == nil && bytes.Equal(kr.GetKeys()[0], k3), "tv.keyring.use")
	vAssert(kr.RemoveKey(k3) != nil && kr.RemoveKey(k1) == nil && len(kr.GetKeys()) == 2, "tv.keyring.remove")
	vAssert(kr.AddKey([]byte{1, 2, 3}) != nil, "tv.keyring.invalid")
	// queue_test.go: TestTransmitLimited_GetBroadcasts
	q := &TransmitLimitedQueue{RetransmitMult: 3, NumNodes: func() int { return 10 }}
	q.QueueBroadcast(&memberlistBroadcast{"test", []byte("1. this is a test."), nil})
	q.QueueBroadcast(&memberlistBroadcast{"foo", []byte("2. this is a test."), nil})
	q.QueueBroadcast(&memberlistBroadcast{"bar", []byte("3. this is a test."), nil})
	q.QueueBroadcast(&memberlistBroadcast{"baz", []byte("4. this is a test."), nil})
	vAssert(len(q.GetBroadcasts(2, 80)) == 4 && len(q.GetBroadcasts(3, 80)) == 3, "tv.queue")
	q.Prune(2)
	vAssert(q.NumQueued() == 2, "tv.queue.prune")
	vCover("tv.suite-vectors")
}
