package memberlist

import "net"

import "bytes"

func init() {
	vRegister("H_C17_Constructor", H_C17_Constructor)
	vRegister("H_C17_Sequence", H_C17_Sequence)
	vRegister("H_C17_Rotation", H_C17_Rotation)
}

func vDistinctKeys(n int) [][]byte {
	ks := make([][]byte, n)
	for i := range ks {
		ks[i] = vBytes(16)
		for j := 0; j < i; j++ {
			vAssume(!vEqBytes(ks[i], ks[j]))
		}
	}
	return ks
}

// C17: keyring representation invariants and snapshot stability over arbitrary call sequences.
func H_C17_Sequence() {
	pool := vDistinctKeys(3)
	bad := vBytes(15)
	// model: indices into pool, primary first
	var model []int
	var ring *Keyring
	switch vPick(5) {
	case 4:
		// the same secondary key passed twice, the primary listed among the secondaries as well
		r, err := NewKeyring([][]byte{pool[1], pool[0], pool[1]}, pool[0])
		vAssert(err == nil, "c17.new.duplicates-collapsed")
		ring, model = r, []int{0, 1}
	case 0:
		r, err := NewKeyring(nil, nil)
		vAssert(err == nil, "c17.new.empty-ok")
		ring = r
	case 1:
		r, err := NewKeyring(nil, pool[0])
		vAssert(err == nil, "c17.new.primary-only")
		ring, model = r, []int{0}
	case 2:
		r, err := NewKeyring([][]byte{pool[1], pool[0]}, pool[0])
		vAssert(err == nil, "c17.new.with-keys")
		ring, model = r, []int{0, 1}
	case 3:
		r, err := NewKeyring([][]byte{pool[1]}, bad)
		vAssert(err != nil && r == nil, "c17.new.bad-primary-rejected")
		r2, err2 := NewKeyring([][]byte{pool[1]}, nil)
		vAssert(err2 != nil && r2 == nil, "c17.new.missing-primary-rejected")
		vCover("c17.new.rejected")
		return
	}
	var snap, want [][]byte
	haveSnap := false
	steps := 3 + vTier()
	for s := 0; s < steps; s++ {
		op := vPick(5)
		ki := vPick(4) // 3 = invalid-length key
		var key []byte
		if ki < 3 {
			key = pool[ki]
		} else {
			key = bad
		}
		at := -1
		for i, m := range model {
			if m == ki {
				at = i
			}
		}
		switch op {
		case 0:
			err := ring.AddKey(key)
			if ki == 3 {
				vAssert(err != nil, "c17.add.invalid-rejected")
			} else {
				vAssert(err == nil, "c17.add.ok")
				if at < 0 {
					model = append(model, ki)
				}
			}
		case 1:
			err := ring.UseKey(key)
			if at < 0 {
				vAssert(err != nil, "c17.use.absent-rejected")
			} else {
				vAssert(err == nil, "c17.use.ok")
				nm := []int{ki}
				for _, m := range model {
					if m != ki {
						nm = append(nm, m)
					}
				}
				model = nm
			}
		case 2:
			err := ring.RemoveKey(key)
			if at == 0 {
				vAssert(err != nil, "c17.remove.primary-rejected")
			} else if at > 0 {
				vAssert(err == nil, "c17.remove.ok")
				model = append(append([]int{}, model[:at]...), model[at+1:]...)
			}
		case 3:
			snap = ring.GetKeys()
			want = append([][]byte(nil), snap...)
			haveSnap = true
		case 4:
			pk := ring.GetPrimaryKey()
			if len(model) == 0 {
				vAssert(pk == nil, "c17.primary.nil-when-empty")
			} else {
				vAssert(vEqBytes(pk, pool[model[0]]), "c17.primary.is-first")
			}
		}
		// invariants after every operation
		keys := ring.GetKeys()
		vAssert(len(keys) == len(model), "c17.inv.size")
		for i := range keys {
			if i < len(model) {
				vAssert(vEqBytes(keys[i], pool[model[i]]), "c17.inv.contents-and-order")
			}
			vAssert(ValidateKey(keys[i]) == nil, "c17.inv.valid-length")
		}
		if haveSnap {
			vAssert(len(snap) == len(want), "c17.snapshot.len")
			for i := range want {
				vAssert(len(snap[i]) == len(want[i]) && &snap[i][0] == &want[i][0], "c17.snapshot.unchanged")
			}
		}
	}
	vCover("c17.sequence")
}

func vHasKey(keys [][]byte, k []byte) bool {
	r := false
	for _, x := range keys {
		r = vOr(r, vEqBytes(x, k))
	}
	return r
}

// C17 rotation: install-new everywhere, then use-new everywhere, then remove-old everywhere keeps every
// pair of nodes able to talk at every reachable pair of per-node positions.
func H_C17_Rotation() {
	ks := vDistinctKeys(2)
	oldK, newK := ks[0], ks[1]
	mk := func(pos int) *Keyring {
		r, err := NewKeyring(nil, oldK)
		vAssert(err == nil, "c17.rot.new")
		if pos >= 1 {
			vAssert(r.AddKey(newK) == nil, "c17.rot.install")
		}
		if pos >= 2 {
			vAssert(r.UseKey(newK) == nil, "c17.rot.use")
		}
		if pos >= 3 {
			vAssert(r.RemoveKey(oldK) == nil, "c17.rot.remove")
		}
		return r
	}
	pa, pb := vPick(4), vPick(4)
	// barrier: nobody starts phase p+1 before everybody finished phase p
	if pa > pb+1 || pb > pa+1 {
		return
	}
	a, b := mk(pa), mk(pb)
	vAssert(vHasKey(b.GetKeys(), a.GetPrimaryKey()), "c17.rot.a-to-b")
	vAssert(vHasKey(a.GetKeys(), b.GetPrimaryKey()), "c17.rot.b-to-a")
	vCover("c17.rotation")
}

func init() {
	vRegister("H_C17_RotationTraffic", H_C17_RotationTraffic)
}

// C17 rotation with real traffic: at every reachable pair of rotation positions a message sealed by one node
// under its primary key is opened by the other, for small messages and for messages larger than a
// UDP packet buffer, as push/pull state can be.
func H_C17_RotationTraffic() {
	vUnwind(80000)
	ks := vDistinctKeys(2)
	oldK, newK := ks[0], ks[1]
	mk := func(pos int) *Keyring {
		r, _ := NewKeyring(nil, oldK)
		if pos >= 1 {
			_ = r.AddKey(newK)
		}
		if pos >= 2 {
			_ = r.UseKey(newK)
		}
		if pos >= 3 {
			_ = r.RemoveKey(oldK)
		}
		return r
	}
	pa, pb := vPick(4), vPick(4)
	if pa > pb+1 || pb > pa+1 {
		return
	}
	a, b := mk(pa), mk(pb)
	size := []int{10, 66000}[vPick(2)]
	msg := make([]byte, size)
	msg[0], msg[size-1] = vU8(), vU8()
	ev := encryptionVersion(vPick(2))
	var buf bytes.Buffer
	vAssert(encryptPayload(ev, a.GetPrimaryKey(), msg, nil, &buf) == nil, "c17.traffic.seal")
	plain, err := decryptPayload(b.GetKeys(), buf.Bytes(), nil)
	vAssert(err == nil, "c17.traffic.peer-can-open")
	if err == nil {
		vAssert(len(plain) == size && plain[0] == msg[0] && plain[size-1] == msg[size-1], "c17.traffic.intact")
	}
	vCover("c17.traffic")
}

// C17 through the node constructor: Config.SecretKey with or without a caller-supplied keyring. A key of invalid
// length is refused and never reaches the ring; otherwise the ring ends with SecretKey installed, primary and
// first, without duplicates, and every installed key has a valid length.
func H_C17_Constructor() {
	conf := vBaseConfig()
	conf.Logger = vLogger()
	pool := vDistinctKeys(3)
	var ring *Keyring
	var before [][]byte
	switch vPick(3) {
	case 1:
		ring, _ = NewKeyring(nil, pool[0])
	case 2:
		ring, _ = NewKeyring([][]byte{pool[1]}, pool[0])
	}
	if ring != nil {
		before = ring.GetKeys()
	}
	conf.Keyring = ring
	valid := true
	switch vPick(6) {
	case 0:
		conf.SecretKey = nil
	case 1:
		conf.SecretKey = pool[2]
	case 2:
		conf.SecretKey = pool[1] // already a secondary key of the two-key ring
	case 3:
		conf.SecretKey = pool[0] // already the primary
	case 4:
		conf.SecretKey, valid = vBytes(15), false
	case 5:
		conf.SecretKey, valid = vBytes(22), false
	}
	rec := &vTransport{packetCh: make(chan *Packet, 1), streamCh: make(chan net.Conn, 1)}
	conf.Transport = rec
	m, err := newMemberlist(conf)
	if err == nil {
		defer m.Shutdown()
	}
	if !valid {
		vAssert(err != nil, "c17.ctor.invalid-secret-refused")
		if ring != nil {
			after := ring.GetKeys()
			vAssert(len(after) == len(before), "c17.ctor.refused-leaves-ring-alone")
			for i := range after {
				if i < len(before) {
					vAssert(vEqBytes(after[i], before[i]), "c17.ctor.refused-leaves-ring-alone")
				}
			}
		}
		vCover("c17.ctor.refused")
		return
	}
	vAssert(err == nil, "c17.ctor.created")
	if err != nil {
		return
	}
	kr := m.config.Keyring
	if conf.SecretKey == nil && ring == nil {
		vAssert(kr == nil || len(kr.GetKeys()) == 0, "c17.ctor.no-keys")
		vCover("c17.ctor.plain")
		return
	}
	vAssert(kr != nil, "c17.ctor.ring")
	if kr == nil {
		return
	}
	keys := kr.GetKeys()
	vAssert(len(keys) >= 1, "c17.ctor.nonempty")
	for i, k := range keys {
		vAssert(len(k) == 16 || len(k) == 24 || len(k) == 32, "c17.ctor.valid-lengths")
		for j := 0; j < i; j++ {
			vAssert(!vEqBytes(k, keys[j]), "c17.ctor.no-duplicates")
		}
	}
	if len(keys) >= 1 {
		vAssert(vEqBytes(keys[0], kr.GetPrimaryKey()), "c17.ctor.primary-first")
		if conf.SecretKey != nil {
			vAssert(vEqBytes(keys[0], conf.SecretKey), "c17.ctor.secret-is-primary")
		}
	}
	for _, b := range before {
		found := false
		for _, k := range keys {
			found = found || vEqBytes(k, b)
		}
		vAssert(found, "c17.ctor.caller-keys-kept")
	}
	vCover("c17.ctor.ok")
}
