package memberlist

// Shared fixture: a Memberlist built directly (no sockets, no goroutines) whose node
// table is an arbitrary state satisfying the representation invariant, plus recording
// delegates and a recording transport.

import (
	"container/list"
	"net"
	"time"
)

const (
	vSelf = "n0"
	vPeerA = "n1"
	vPeerB = "n2"
)

type vEvent struct {
	kind  int // 1 join 2 leave 3 update
	name  string
	meta  []byte
	addr  []byte
	port  uint16
	state NodeStateType
}

type vEvents struct {
	log      []vEvent
	owner    *Memberlist
	unlocked int // callbacks delivered while the node lock was NOT write-held (serialisation broken)
}

// every callback must run under the node lock: that is what serialises events against each other and against
// the table they describe
func (e *vEvents) checkLocked() {
	if e.owner != nil && e.owner.nodeLock.TryLock() {
		e.owner.nodeLock.Unlock()
		e.unlocked++
	}
}

func (e *vEvents) NotifyJoin(n *Node) {
	e.checkLocked()
	e.log = append(e.log, vEvent{1, n.Name, n.Meta, n.Addr, n.Port, n.State})
}
func (e *vEvents) NotifyLeave(n *Node) {
	e.checkLocked()
	e.log = append(e.log, vEvent{2, n.Name, n.Meta, n.Addr, n.Port, n.State})
}
func (e *vEvents) NotifyUpdate(n *Node) {
	e.checkLocked()
	e.log = append(e.log, vEvent{3, n.Name, n.Meta, n.Addr, n.Port, n.State})
}

type vConflictRec struct {
	n        int
	existing string
	otherAddr []byte
}

func (c *vConflictRec) NotifyConflict(existing, other *Node) {
	c.n++
	c.existing = existing.Name
	c.otherAddr = other.Addr
}

type vAliveRec struct {
	veto     bool
	calls    int
	onNotify func() // lets a harness make the delegate slow
}

type vErr struct{}

func (vErr) Error() string { return "verif: veto" }

func (a *vAliveRec) NotifyAlive(peer *Node) error {
	a.calls++
	if a.onNotify != nil {
		a.onNotify()
	}
	if a.veto {
		return vErr{}
	}
	return nil
}

type vMergeRec struct {
	veto  bool
	calls int
	last  []*Node
}

func (a *vMergeRec) NotifyMerge(peers []*Node) error {
	a.calls++
	a.last = peers
	if a.veto {
		return vErr{}
	}
	return nil
}

type vDelegateRec struct {
	meta       []byte
	msgs       [][]byte
	merged     [][]byte
	mergeJoin  []bool
	bcast      [][]byte
	localState []byte
	bcastCalls int
	bcastReturned int
	lastOverhead, lastLimit int
}

func (d *vDelegateRec) NodeMeta(limit int) []byte { return d.meta }
func (d *vDelegateRec) NotifyMsg(b []byte)        { d.msgs = append(d.msgs, b) }
// GetBroadcasts honours the documented contract: the returned messages plus overhead fit the limit.
func (d *vDelegateRec) GetBroadcasts(overhead, limit int) [][]byte {
	d.bcastCalls++
	d.lastOverhead, d.lastLimit = overhead, limit
	var out [][]byte
	used := 0
	for _, b := range d.bcast {
		if used+overhead+len(b) > limit {
			break
		}
		used += overhead + len(b)
		out = append(out, b)
	}
	d.bcastReturned += len(out)
	return out
}
func (d *vDelegateRec) LocalState(join bool) []byte { return d.localState }
func (d *vDelegateRec) MergeRemoteState(buf []byte, join bool) {
	d.merged = append(d.merged, buf)
	d.mergeJoin = append(d.mergeJoin, join)
}

type vAddr string

func (a vAddr) Network() string { return "verif" }
func (a vAddr) String() string  { return string(a) }

// vTransport records everything handed to it.
type vTransport struct {
	packets  [][]byte
	to       []Address
	shut     int
	writeErr bool
	dialErr  bool
	dialHang bool
	conn     net.Conn
	dials    int
	packetCh chan *Packet
	streamCh chan net.Conn
	order    []string // "write" / "shutdown" sequence
	attempts []Address
	onWrite  func(b []byte, a Address)
	onDial   func(a Address, timeout time.Duration) (net.Conn, error)
	owner    *Memberlist
	flagAtShutdown bool // the shutdown flag was already raised when the transport was asked to shut down
	shutdownGate chan struct{} // when set, Shutdown blocks here (a slow transport teardown)
}

func (t *vTransport) FinalAdvertiseAddr(ip string, port int) (net.IP, int, error) {
	return net.IP{10, 0, 0, 1}, 7946, nil
}
func (t *vTransport) WriteTo(b []byte, addr string) (time.Time, error) {
	return t.WriteToAddress(b, Address{Addr: addr})
}
func (t *vTransport) WriteToAddress(b []byte, a Address) (time.Time, error) {
	t.attempts = append(t.attempts, a)
	if t.onWrite != nil {
		t.onWrite(b, a)
	}
	if t.writeErr {
		return time.Time{}, vErr{}
	}
	cp := make([]byte, len(b))
	copy(cp, b)
	t.packets = append(t.packets, cp)
	t.to = append(t.to, a)
	t.order = append(t.order, "write")
	return time.Time{}, nil
}
func (t *vTransport) PacketCh() <-chan *Packet { return t.packetCh }
func (t *vTransport) DialTimeout(addr string, timeout time.Duration) (net.Conn, error) {
	return t.DialAddressTimeout(Address{Addr: addr}, timeout)
}
func (t *vTransport) DialAddressTimeout(a Address, timeout time.Duration) (net.Conn, error) {
	t.dials++
	if t.onDial != nil {
		return t.onDial(a, timeout)
	}
	if t.dialHang {
		// a host that never answers the connection attempt: the dial gives up when its own timeout expires
		time.Sleep(timeout)
		return nil, vTimeoutErr{}
	}
	if t.dialErr || t.conn == nil {
		return nil, vErr{}
	}
	return t.conn, nil
}
func (t *vTransport) StreamCh() <-chan net.Conn { return t.streamCh }
func (t *vTransport) Shutdown() error {
	if t.owner != nil && t.owner.hasShutdown() {
		t.flagAtShutdown = true
	}
	t.shut++
	if t.shutdownGate != nil {
		<-t.shutdownGate
	}
	t.order = append(t.order, "shutdown")
	return nil
}

type vFix struct {
	m        *Memberlist
	ev       *vEvents
	conflict *vConflictRec
	alive    *vAliveRec
	merge    *vMergeRec
	del      *vDelegateRec
	tr       *vTransport
}

// vNewML builds a Memberlist with only the local (alive) record. inc0 is the local incarnation.
func vNewML(conf *Config) *vFix {
	f := &vFix{ev: &vEvents{}, conflict: &vConflictRec{}, tr: &vTransport{packetCh: make(chan *Packet, 1), streamCh: make(chan net.Conn, 1)}}
	conf.Events = f.ev
	conf.Conflict = f.conflict
	var tr NodeAwareTransport = f.tr
	if conf.Label != "" {
		tr = &labelWrappedTransport{label: conf.Label, NodeAwareTransport: f.tr}
	}
	m := &Memberlist{
		config:               conf,
		shutdownCh:           make(chan struct{}),
		leaveBroadcast:       make(chan struct{}, 1),
		transport:            tr,
		handoffCh:            make(chan struct{}, 1),
		highPriorityMsgQueue: list.New(),
		lowPriorityMsgQueue:  list.New(),
		nodeMap:              make(map[string]*nodeState),
		nodeTimers:           make(map[string]*suspicion),
		awareness:            newAwareness(conf.AwarenessMaxMultiplier, nil),
		ackHandlers:          make(map[uint32]*ackHandler),
		broadcasts:           &TransmitLimitedQueue{RetransmitMult: conf.RetransmitMult},
		logger:               vLogger(),
	}
	m.broadcasts.NumNodes = func() int { return m.estNumNodes() }
	m.setAdvertise(net.IP{10, 0, 0, 1}, 7946)
	f.m = m
	f.tr.owner = m
	f.ev.owner = m
	return f
}

func vBaseConfig() *Config {
	return &Config{
		Name:                    vSelf,
		BindPort:                7946,
		ProtocolVersion:         ProtocolVersion2Compatible,
		DelegateProtocolMin:     0,
		DelegateProtocolMax:     0,
		DelegateProtocolVersion: 0,
		TCPTimeout:              10 * time.Second,
		IndirectChecks:          1,
		RetransmitMult:          4,
		SuspicionMult:           4,
		SuspicionMaxTimeoutMult: 6,
		PushPullInterval:        30 * time.Second,
		ProbeTimeout:            500 * time.Millisecond,
		ProbeInterval:           time.Second,
		AwarenessMaxMultiplier:  8,
		GossipNodes:             3,
		GossipInterval:          200 * time.Millisecond,
		GossipToTheDeadTime:     30 * time.Second,
		GossipVerifyIncoming:    true,
		GossipVerifyOutgoing:    true,
		UDPBufferSize:           1400,
		HandoffQueueDepth:       4,
		QueueCheckInterval:      30 * time.Second,
	}
}

// vAddSelf installs the local alive record with the given incarnation.
func (f *vFix) vAddSelf(inc uint32, meta []byte) *nodeState {
	m := f.m
	ns := &nodeState{Node: Node{Name: vSelf, Addr: net.IP{10, 0, 0, 1}, Port: 7946, Meta: meta,
		PMin: ProtocolVersionMin, PMax: ProtocolVersionMax, PCur: m.config.ProtocolVersion,
		DMin: m.config.DelegateProtocolMin, DMax: m.config.DelegateProtocolMax, DCur: m.config.DelegateProtocolVersion},
		Incarnation: inc, State: StateAlive, StateChange: vNow().Add(-time.Hour)}
	m.nodeMap[vSelf] = ns
	m.nodes = append(m.nodes, ns)
	m.numNodes.Store(uint32(len(m.nodes)))
	m.incarnation.Store(inc)
	return ns
}

// vAddNode installs a record for name with symbolic fields (state 0..3 arbitrary).
// A Suspect record gets a suspicion timer (representation invariant).
func (f *vFix) vAddNode(name string, metaLen int) *nodeState {
	m := f.m
	st := NodeStateType(vRange(0, 3))
	age := time.Duration(vRange(0, 1<<45))
	ns := &nodeState{Node: Node{Name: name, Addr: net.IP(vBytes(vAddrLen())), Port: vU16(), Meta: vBytes(metaLen),
		PMin: vU8(), PMax: vU8(), PCur: vU8(), DMin: vU8(), DMax: vU8(), DCur: vU8()},
		Incarnation: vU32(), State: st, StateChange: vNow().Add(-age)}
	ns.Node.State = st
	m.nodeMap[name] = ns
	m.nodes = append(m.nodes, ns)
	m.numNodes.Store(uint32(len(m.nodes)))
	if st == StateSuspect {
		f.vAddSuspicion(name, ns)
	}
	return ns
}

// vAddConcreteAlive installs a fixed alive bystander.
func (f *vFix) vAddConcreteAlive(name string, lastOctet byte) *nodeState {
	m := f.m
	ns := &nodeState{Node: Node{Name: name, Addr: net.IP{10, 0, 0, lastOctet}, Port: 7946,
		PMin: 1, PMax: 5, PCur: 2}, Incarnation: 1, State: StateAlive, StateChange: vNow().Add(-time.Hour)}
	m.nodeMap[name] = ns
	m.nodes = append(m.nodes, ns)
	m.numNodes.Store(uint32(len(m.nodes)))
	return ns
}

// vAddSuspicion arms a suspicion object for a Suspect record: accuser picked from the pool,
// k in 0..2 with n <= k confirmations already seen.
func (f *vFix) vAddSuspicion(name string, ns *nodeState) *suspicion {
	k := vPick(3)
	from := []string{vSelf, vPeerA, vPeerB}[vPick(3)]
	s := &suspicion{k: int32(k), min: 2 * time.Second, max: 12 * time.Second, confirmations: map[string]struct{}{from: {}}}
	s.timeoutFn = func() {}
	s.timer = time.AfterFunc(s.max, s.timeoutFn)
	s.start = ns.StateChange
	f.m.nodeTimers[name] = s
	return s
}

type vSnap struct {
	present bool
	inc     uint32
	state   NodeStateType
	addr    []byte
	port    uint16
	meta    []byte
	change  time.Time
	vsn     [6]uint8
}

func (f *vFix) vSnapshot(name string) vSnap {
	ns, ok := f.m.nodeMap[name]
	if !ok {
		return vSnap{}
	}
	return vSnap{true, ns.Incarnation, ns.State, append([]byte(nil), ns.Addr...), ns.Port, append([]byte(nil), ns.Meta...), ns.StateChange,
		[6]uint8{ns.PMin, ns.PMax, ns.PCur, ns.DMin, ns.DMax, ns.DCur}}
}

// vSameRecord: the record for name is field-for-field what the snapshot says.
func (f *vFix) vSameRecord(name string, s vSnap) bool {
	ns, ok := f.m.nodeMap[name]
	if !ok {
		return !s.present
	}
	if !s.present {
		return false
	}
	r := vAnd(ns.Incarnation == s.inc, ns.State == s.state)
	r = vAnd(r, vEqBytes(ns.Addr, s.addr))
	r = vAnd(r, ns.Port == s.port)
	r = vAnd(r, vEqBytes(ns.Meta, s.meta))
	r = vAnd(r, ns.StateChange.Equal(s.change))
	r = vAnd(r, [6]uint8{ns.PMin, ns.PMax, ns.PCur, ns.DMin, ns.DMax, ns.DCur} == s.vsn)
	return r
}

func vRank(s NodeStateType) int {
	return vIteInt(s == StateAlive, 0, vIteInt(s == StateSuspect, 1, 2))
}

func (f *vFix) vIsMember(name string) bool {
	for _, n := range f.m.Members() {
		if n.Name == name {
			return true
		}
	}
	return false
}

// vAddSelfNamed installs the local alive record for a fixture whose config.Name is name.
func (f *vFix) vAddSelfNamed(name string) *nodeState {
	m := f.m
	ns := &nodeState{Node: Node{Name: name, Addr: []byte{10, 0, 0, 2}, Port: 7946, PMin: 1, PMax: 5, PCur: m.config.ProtocolVersion},
		Incarnation: 1, State: StateAlive, StateChange: vNow().Add(-time.Hour)}
	m.nodeMap[name] = ns
	m.nodes = append(m.nodes, ns)
	m.numNodes.Store(uint32(len(m.nodes)))
	m.incarnation.Store(1)
	return ns
}

// vAddrLen: IPv4 in the quick tier; IPv4 or IPv6 (16 bytes) in the thorough tier.
func vAddrLen() int {
	if vTier() == 1 {
		return []int{4, 16}[vPick(2)]
	}
	return 4
}

// vMetaLen: metadata of 0..1 bytes (quick) or 0..2 bytes (thorough).
func vMetaLen() int { return vPick(2 + vTier()) }
