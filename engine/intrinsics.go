package main

import (
	"fmt"
	"go/token"
	"go/types"
	"hash/crc32"
	"math"
	"net"
	"strconv"
	"strings"

	"golang.org/x/tools/go/ssa"
)

type intrinsicFn func(p *Path, th *thread, caller *frame, pos token.Pos, fn *ssa.Function, args []Value) Value

const mlPkg = "github.com/hashicorp/memberlist"

var intrinsics = map[string]intrinsicFn{}

func reg(name string, f intrinsicFn) { intrinsics[name] = f }

func noop(p *Path, th *thread, caller *frame, pos token.Pos, fn *ssa.Function, args []Value) Value {
	return zeroResult(fn)
}

func (ex *Explorer) intrinsic(fn *ssa.Function, name string) intrinsicFn {
	if f, ok := intrinsics[name]; ok {
		return f
	}
	if fn.Pkg != nil {
		pp := fn.Pkg.Pkg.Path()
		if strings.HasPrefix(pp, "github.com/hashicorp/go-metrics") || strings.HasPrefix(pp, "github.com/armon/go-metrics") {
			return noop
		}
		if pp == "log" || pp == "os" {
			return noop
		}
	}
	return nil
}

func termArg(v Value) *Term { return v.(*Term) }

func concStr(v Value) (string, bool) { return v.(*StrVal).Concrete() }

func (p *Path) opaqueErr(msg string) Value {
	// *errors.errorString{s: msg}
	t := p.ex.errorStringPtr
	cell := new(Value)
	*cell = StructVal{mkStr(msg)}
	return IfaceVal{T: t, V: cell}
}

func bytesOf(v Value) []*Term {
	switch x := v.(type) {
	case SliceVal:
		r := make([]*Term, x.N)
		for i := 0; i < x.N; i++ {
			r[i] = x.Back[i].(*Term)
		}
		return r
	case *StrVal:
		r := make([]*Term, x.Len())
		for i := range r {
			r[i] = x.At(i)
		}
		return r
	}
	panic(fmt.Sprintf("bytesOf %T", v))
}

func mkByteSlice(ts []*Term) SliceVal {
	back := make([]Value, len(ts))
	for i, t := range ts {
		back[i] = t
	}
	return SliceVal{Back: back, N: len(ts)}
}

func allConst(ts []*Term) ([]byte, bool) {
	b := make([]byte, len(ts))
	for i, t := range ts {
		if !t.IsConst() {
			return nil, false
		}
		b[i] = byte(t.Val)
	}
	return b, true
}

func (p *Path) lockIntr(kind string) intrinsicFn {
	return func(p *Path, th *thread, caller *frame, pos token.Pos, fn *ssa.Function, args []Value) Value {
		cell := args[0].(*Value)
		if cell == nil {
			p.obligation(tFalse, "nil", "nilmutex@"+fnName(caller), "lock operation on nil mutex", caller, pos)
		}
		l := p.lockOf(cell)
		p.preemptPoint(th)
		switch kind {
		case "Lock":
			p.block(caller, th, func() bool { return !l.writer && l.readers == 0 }, "mutex Lock", pos)
			l.writer = true
		case "TryLock":
			if !l.writer && l.readers == 0 {
				l.writer = true
				return tTrue
			}
			return tFalse
		case "Unlock":
			if !l.writer {
				p.obligation(tFalse, "unlock", "unlock@"+fnName(caller), "unlock of unlocked mutex", caller, pos)
			}
			l.writer = false
		case "RLock":
			p.block(caller, th, func() bool { return !l.writer }, "rwmutex RLock", pos)
			l.readers++
		case "RUnlock":
			if l.readers <= 0 {
				p.obligation(tFalse, "unlock", "runlock@"+fnName(caller), "RUnlock of unlocked rwmutex", caller, pos)
			}
			l.readers--
		}
		return nil
	}
}

func atomicRMW(op string) intrinsicFn {
	return func(p *Path, th *thread, caller *frame, pos token.Pos, fn *ssa.Function, args []Value) Value {
		addr := args[0].(*Value)
		if addr == nil {
			p.obligation(tFalse, "nil", "nilatomic@"+fnName(caller), "atomic op on nil pointer", caller, pos)
		}
		p.preemptPoint(th)
		old := (*addr).(*Term)
		switch op {
		case "Load":
			return old
		case "Store":
			*addr = args[1]
			return nil
		case "Add":
			n := Bin(OAdd, old, args[1].(*Term))
			*addr = n
			return n
		case "Swap":
			*addr = args[1]
			return old
		case "And":
			*addr = Bin(OAnd, old, args[1].(*Term))
			return old
		case "Or":
			*addr = Bin(OOr, old, args[1].(*Term))
			return old
		case "CAS":
			if p.branch(Cmp(OEq, old, args[1].(*Term))) {
				*addr = args[2]
				return tTrue
			}
			return tFalse
		}
		panic("atomicRMW")
	}
}

func timeNs(v Value) *Term { return v.(StructVal)[1].(*Term) }

func floatFn1(f func(float64) float64) intrinsicFn {
	return func(p *Path, th *thread, caller *frame, pos token.Pos, fn *ssa.Function, args []Value) Value {
		x := args[0].(FloatVal)
		if x.Sym {
			p.havocs0("float:" + fn.Name())
			return FloatVal{Sym: true}
		}
		return FloatVal{F: f(x.F)}
	}
}
func floatFn2(f func(a, b float64) float64) intrinsicFn {
	return func(p *Path, th *thread, caller *frame, pos token.Pos, fn *ssa.Function, args []Value) Value {
		x, y := args[0].(FloatVal), args[1].(FloatVal)
		if x.Sym || y.Sym {
			p.havocs0("float:" + fn.Name())
			return FloatVal{Sym: true}
		}
		return FloatVal{F: f(x.F, y.F)}
	}
}

func init() {
	// ---- sync ----
	var pp *Path
	for _, k := range []string{"Lock", "Unlock", "TryLock"} {
		reg("(*sync.Mutex)."+k, pp.lockIntr(k))
	}
	for _, k := range []string{"Lock", "Unlock", "RLock", "RUnlock", "TryLock"} {
		reg("(*sync.RWMutex)."+k, pp.lockIntr(k))
	}
	for _, ty := range []string{"Int32", "Uint32", "Int64", "Uint64", "Uintptr"} {
		reg("sync/atomic.Load"+ty, atomicRMW("Load"))
		reg("sync/atomic.Store"+ty, atomicRMW("Store"))
		reg("sync/atomic.Add"+ty, atomicRMW("Add"))
		reg("sync/atomic.Swap"+ty, atomicRMW("Swap"))
		reg("sync/atomic.And"+ty, atomicRMW("And"))
		reg("sync/atomic.Or"+ty, atomicRMW("Or"))
		reg("sync/atomic.CompareAndSwap"+ty, atomicRMW("CAS"))
	}

	// ---- time ----
	reg("time.Now", func(p *Path, th *thread, caller *frame, pos token.Pos, fn *ssa.Function, args []Value) Value {
		return p.timeVal(p.now)
	})
	reg("time.Since", func(p *Path, th *thread, caller *frame, pos token.Pos, fn *ssa.Function, args []Value) Value {
		return Bin(OSub, p.now, timeNs(args[0]))
	})
	reg("time.Until", func(p *Path, th *thread, caller *frame, pos token.Pos, fn *ssa.Function, args []Value) Value {
		return Bin(OSub, timeNs(args[0]), p.now)
	})
	reg("(time.Time).Add", func(p *Path, th *thread, caller *frame, pos token.Pos, fn *ssa.Function, args []Value) Value {
		return p.timeVal(Bin(OAdd, timeNs(args[0]), termArg(args[1])))
	})
	reg("(time.Time).Sub", func(p *Path, th *thread, caller *frame, pos token.Pos, fn *ssa.Function, args []Value) Value {
		return Bin(OSub, timeNs(args[0]), timeNs(args[1]))
	})
	reg("(time.Time).Equal", func(p *Path, th *thread, caller *frame, pos token.Pos, fn *ssa.Function, args []Value) Value {
		return Cmp(OEq, timeNs(args[0]), timeNs(args[1]))
	})
	reg("(time.Time).Before", func(p *Path, th *thread, caller *frame, pos token.Pos, fn *ssa.Function, args []Value) Value {
		return Cmp(OSlt, timeNs(args[0]), timeNs(args[1]))
	})
	reg("(time.Time).After", func(p *Path, th *thread, caller *frame, pos token.Pos, fn *ssa.Function, args []Value) Value {
		return Cmp(OSlt, timeNs(args[1]), timeNs(args[0]))
	})
	reg("(time.Time).IsZero", func(p *Path, th *thread, caller *frame, pos token.Pos, fn *ssa.Function, args []Value) Value {
		return Cmp(OEq, timeNs(args[0]), BV(64, 0))
	})
	reg("(time.Duration).Seconds", func(p *Path, th *thread, caller *frame, pos token.Pos, fn *ssa.Function, args []Value) Value {
		d := termArg(args[0])
		if d.IsConst() {
			return FloatVal{F: float64(int64(d.Val)) / 1e9}
		}
		p.havocs0("float:Duration.Seconds")
		return FloatVal{Sym: true}
	})
	reg("(time.Duration).String", func(p *Path, th *thread, caller *frame, pos token.Pos, fn *ssa.Function, args []Value) Value {
		return mkStr("<duration>")
	})
	reg("time.AfterFunc", func(p *Path, th *thread, caller *frame, pos token.Pos, fn *ssa.Function, args []Value) Value {
		t := p.addTimer(termArg(args[0]), args[1], nil)
		return p.timerCell(t)
	})
	reg("time.NewTimer", func(p *Path, th *thread, caller *frame, pos token.Pos, fn *ssa.Function, args []Value) Value {
		ch := p.newChan(1, p.ex.timeType)
		t := p.addTimer(termArg(args[0]), nil, ch)
		return p.timerCell(t)
	})
	reg("time.After", func(p *Path, th *thread, caller *frame, pos token.Pos, fn *ssa.Function, args []Value) Value {
		ch := p.newChan(1, p.ex.timeType)
		p.addTimer(termArg(args[0]), nil, ch)
		return ch
	})
	reg("time.NewTicker", func(p *Path, th *thread, caller *frame, pos token.Pos, fn *ssa.Function, args []Value) Value {
		ch := p.newChan(1, p.ex.timeType)
		t := p.addTimer(termArg(args[0]), nil, ch)
		t.period = termArg(args[0])
		return p.timerCell(t)
	})
	stop := func(p *Path, th *thread, caller *frame, pos token.Pos, fn *ssa.Function, args []Value) Value {
		cell := args[0].(*Value)
		if cell == nil {
			p.obligation(tFalse, "nil", "niltimer@"+fnName(caller), "Stop on nil timer", caller, pos)
		}
		p.preemptPoint(th)
		t := p.timerOf[cell]
		if t == nil {
			unsup("Stop on unknown timer")
		}
		was := t.active
		t.active = false
		if fn.Signature.Results().Len() == 0 {
			return nil
		}
		return BoolT(was)
	}
	reg("(*time.Timer).Stop", stop)
	reg("(*time.Ticker).Stop", stop)
	reg("(*time.Timer).Reset", func(p *Path, th *thread, caller *frame, pos token.Pos, fn *ssa.Function, args []Value) Value {
		cell := args[0].(*Value)
		t := p.timerOf[cell]
		if t == nil {
			unsup("Reset on unknown timer")
		}
		was := t.active
		t.active = true
		t.deadline = Bin(OAdd, p.now, termArg(args[1]))
		return BoolT(was)
	})
	reg("time.Sleep", func(p *Path, th *thread, caller *frame, pos token.Pos, fn *ssa.Function, args []Value) Value {
		ch := p.newChan(1, p.ex.timeType)
		p.addTimer(termArg(args[0]), nil, ch)
		p.chanRecv(caller, ch, pos)
		return nil
	})

	// ---- fmt / errors / strconv / strings ----
	reg("fmt.Errorf", func(p *Path, th *thread, caller *frame, pos token.Pos, fn *ssa.Function, args []Value) Value {
		s, _ := concStr(args[0])
		return p.opaqueErr("errorf:" + s)
	})
	reg("fmt.Sprintf", func(p *Path, th *thread, caller *frame, pos token.Pos, fn *ssa.Function, args []Value) Value {
		format, _ := concStr(args[0])
		// real formatting when every operand is concrete (Stringer / error methods are run from their SSA)
		if va, ok := args[1].(SliceVal); ok {
			goArgs := make([]interface{}, 0, va.N)
			all := true
			for i := 0; i < va.N && all; i++ {
				g, ok := p.toGo(th, caller, pos, va.Back[i])
				if !ok {
					all = false
				}
				goArgs = append(goArgs, g)
			}
			if all {
				return mkStr(fmt.Sprintf(format, goArgs...))
			}
		}
		return mkStr("sprintf:" + format)
	})
	for _, n := range []string{"fmt.Sprint", "fmt.Sprintln"} {
		n := n
		reg(n, func(p *Path, th *thread, caller *frame, pos token.Pos, fn *ssa.Function, args []Value) Value {
			return mkStr("sprint")
		})
	}
	for _, n := range []string{"fmt.Fprintf", "fmt.Printf", "fmt.Println", "fmt.Fprintln", "fmt.Fprint", "fmt.Print"} {
		reg(n, noop)
	}
	reg("strconv.Itoa", func(p *Path, th *thread, caller *frame, pos token.Pos, fn *ssa.Function, args []Value) Value {
		t := termArg(args[0])
		if t.IsConst() {
			return mkStr(strconv.Itoa(int(int64(t.Val))))
		}
		return &StrVal{Sym: []*Term{BV(8, '#'), Extract(t, 7, 0), Extract(t, 15, 8)}}
	})
	reg("net.JoinHostPort", func(p *Path, th *thread, caller *frame, pos token.Pos, fn *ssa.Function, args []Value) Value {
		a, b := args[0].(*StrVal), args[1].(*StrVal)
		as, ok1 := a.Concrete()
		bs, ok2 := b.Concrete()
		if ok1 && ok2 {
			return mkStr(net.JoinHostPort(as, bs))
		}
		ts := append(bytesOf(a), BV(8, ':'))
		ts = append(ts, bytesOf(b)...)
		return mkStrTerms(ts)
	})
	reg("net.SplitHostPort", func(p *Path, th *thread, caller *frame, pos token.Pos, fn *ssa.Function, args []Value) Value {
		s, ok := concStr(args[0])
		if ok {
			h, pt, err := net.SplitHostPort(s)
			if err != nil {
				return TupleVal{mkStr(""), mkStr(""), p.opaqueErr("splithostport")}
			}
			return TupleVal{mkStr(h), mkStr(pt), IfaceVal{}}
		}
		// symbolic address string (built by JoinHostPort above): split at the last ':' marker
		ts := bytesOf(args[0])
		for i := len(ts) - 1; i >= 0; i-- {
			if ts[i].IsConst() && ts[i].Val == ':' {
				return TupleVal{mkStrTerms(ts[:i]), mkStrTerms(ts[i+1:]), IfaceVal{}}
			}
		}
		return TupleVal{mkStr(""), mkStr(""), p.opaqueErr("splithostport")}
	})
	reg("(net.IP).String", func(p *Path, th *thread, caller *frame, pos token.Pos, fn *ssa.Function, args []Value) Value {
		ts := bytesOf(args[0])
		if b, ok := allConst(ts); ok {
			return mkStr(net.IP(b).String())
		}
		// opaque injective rendering: "ip<" raw bytes ">"
		out := []*Term{BV(8, 'i'), BV(8, 'p'), BV(8, '<')}
		out = append(out, ts...)
		out = append(out, BV(8, '>'))
		return mkStrTerms(out)
	})
	// errors.Is(err, target) for the cases the code under test uses: identity with a sentinel value; an error that
	// wraps another one (Unwrap) is followed through errors built by the opaque fmt.Errorf stub only (they wrap nothing).
	reg("errors.Is", func(p *Path, th *thread, caller *frame, pos token.Pos, fn *ssa.Function, args []Value) Value {
		e, ok1 := args[0].(IfaceVal)
		t, ok2 := args[1].(IfaceVal)
		if !ok1 || !ok2 {
			unsup("errors.Is on non-interface values")
		}
		if e.T == nil || t.T == nil {
			return BoolT(e.T == nil && t.T == nil)
		}
		if !types.Identical(e.T, t.T) {
			if p.ex.prog.MethodSets.MethodSet(e.T).Lookup(nil, "Unwrap") != nil || p.ex.prog.MethodSets.MethodSet(e.T).Lookup(nil, "Is") != nil {
				unsup("errors.Is through Unwrap/Is methods")
			}
			return tFalse
		}
		if _, isPtr := e.V.(*Value); !isPtr {
			unsup("errors.Is on a non-pointer error value")
		}
		return p.eqValue(e.T, e.V, t.V)
	})
	reg("net.ParseCIDR", func(p *Path, th *thread, caller *frame, pos token.Pos, fn *ssa.Function, args []Value) Value {
		s, ok := concStr(args[0])
		if !ok {
			unsup("net.ParseCIDR on a symbolic string")
		}
		ip, ipn, err := net.ParseCIDR(s)
		if err != nil {
			return TupleVal{SliceVal{Nil: true}, (*Value)(nil), p.opaqueErr("invalid CIDR address")}
		}
		mk := func(b []byte) SliceVal {
			ts := make([]*Term, len(b))
			for i, x := range b {
				ts[i] = BV(8, uint64(x))
			}
			return mkByteSlice(ts)
		}
		cell := new(Value)
		*cell = StructVal{mk(ipn.IP), mk(ipn.Mask)}
		return TupleVal{mk(ip), cell, IfaceVal{}}
	})
	reg("net.ParseIP", func(p *Path, th *thread, caller *frame, pos token.Pos, fn *ssa.Function, args []Value) Value {
		s, ok := concStr(args[0])
		if ok {
			ip := net.ParseIP(s)
			if ip == nil {
				return SliceVal{Nil: true}
			}
			ts := make([]*Term, len(ip))
			for i, b := range ip {
				ts[i] = BV(8, uint64(b))
			}
			return mkByteSlice(ts)
		}
		ts := bytesOf(args[0])
		if len(ts) >= 4 && ts[0].IsConst() && ts[0].Val == 'i' && ts[2].IsConst() && ts[2].Val == '<' {
			return mkByteSlice(ts[3 : len(ts)-1])
		}
		return SliceVal{Nil: true}
	})
	strNative := func(f func(a, b string) Value) intrinsicFn {
		return func(p *Path, th *thread, caller *frame, pos token.Pos, fn *ssa.Function, args []Value) Value {
			a, ok1 := concStr(args[0])
			b, ok2 := concStr(args[1])
			if !ok1 || !ok2 {
				unsup("%s on symbolic strings", fn)
			}
			return f(a, b)
		}
	}
	reg("strings.HasPrefix", strNative(func(a, b string) Value { return BoolT(strings.HasPrefix(a, b)) }))
	reg("strings.HasSuffix", strNative(func(a, b string) Value { return BoolT(strings.HasSuffix(a, b)) }))
	reg("strings.Contains", strNative(func(a, b string) Value { return BoolT(strings.Contains(a, b)) }))
	reg("strings.Index", strNative(func(a, b string) Value { return BV(64, uint64(int64(strings.Index(a, b)))) }))
	reg("strings.LastIndex", strNative(func(a, b string) Value { return BV(64, uint64(int64(strings.LastIndex(a, b)))) }))
	reg("strings.Count", strNative(func(a, b string) Value { return BV(64, uint64(int64(strings.Count(a, b)))) }))
	reg("strings.TrimSpace", func(p *Path, th *thread, caller *frame, pos token.Pos, fn *ssa.Function, args []Value) Value {
		a, ok := concStr(args[0])
		if !ok {
			unsup("strings.TrimSpace on a symbolic string")
		}
		return mkStr(strings.TrimSpace(a))
	})
	reg("strings.Trim", strNative(func(a, b string) Value { return mkStr(strings.Trim(a, b)) }))

	// ---- math ----
	reg("math.Log", floatFn1(math.Log))
	reg("math.Log10", floatFn1(math.Log10))
	reg("math.Log2", floatFn1(math.Log2))
	reg("math.Ceil", floatFn1(math.Ceil))
	reg("math.Floor", floatFn1(math.Floor))
	reg("math.Max", floatFn2(math.Max))
	reg("math.Min", floatFn2(math.Min))

	// ---- math/rand ----
	reg("math/rand.Uint32", func(p *Path, th *thread, caller *frame, pos token.Pos, fn *ssa.Function, args []Value) Value {
		if p.randZero {
			p.note("bound: math/rand returns 0 (new records are inserted at the front of the member table)")
			return BV(32, 0)
		}
		return p.havoc("rand.Uint32", 32)
	})
	reg("math/rand.Int63", func(p *Path, th *thread, caller *frame, pos token.Pos, fn *ssa.Function, args []Value) Value {
		if p.randZero {
			return BV(64, 0)
		}
		v := p.havoc("rand.Int63", 64)
		return Bin(OAnd, v, BV(64, math.MaxInt64))
	})
	reg("math/rand.Shuffle", func(p *Path, th *thread, caller *frame, pos token.Pos, fn *ssa.Function, args []Value) Value {
		n := int(p.concretize(termArg(args[0]), "shuffle n"))
		if !p.optShuffle {
			p.note("stub: rand.Shuffle = identity permutation")
			return nil
		}
		for i := n - 1; i > 0; i-- {
			j := p.choose(i + 1)
			p.call(th, caller, pos, args[1], []Value{BV(64, uint64(i)), BV(64, uint64(j))})
		}
		return nil
	})

	// ---- hash/crc32 ----
	reg("hash/crc32.ChecksumIEEE", func(p *Path, th *thread, caller *frame, pos token.Pos, fn *ssa.Function, args []Value) Value {
		ts := bytesOf(args[0])
		if b, ok := allConst(ts); ok {
			return BV(32, uint64(crc32.ChecksumIEEE(b)))
		}
		return p.crcOf(ts)
	})

	// ---- encoding/binary.Write (fixed-size integer fast path only) ----
	reg("encoding/binary.Write", func(p *Path, th *thread, caller *frame, pos token.Pos, fn *ssa.Function, args []Value) Value {
		w := args[0].(IfaceVal)
		data := args[2].(IfaceVal)
		t, ok := data.V.(*Term)
		if !ok || t.W == 0 {
			unsup("binary.Write of %v", data.T)
		}
		order := args[1].(IfaceVal)
		big := strings.Contains(order.T.String(), "bigEndian")
		n := t.W / 8
		ts := make([]*Term, n)
		for i := 0; i < n; i++ {
			b := Extract(t, 8*i+7, 8*i)
			if big {
				ts[n-1-i] = b
			} else {
				ts[i] = b
			}
		}
		wm := p.ex.prog.LookupMethod(w.T, nil, "Write")
		if wm == nil {
			unsup("binary.Write: no Write method on %v", w.T)
		}
		r := p.callSSA(th, caller, pos, wm, []Value{w.V, mkByteSlice(ts)}, nil).(TupleVal)
		return r[1]
	})

	// ---- internal/bytealg (assembly in the real toolchain) ----
	reg("internal/bytealg.IndexByte", func(p *Path, th *thread, caller *frame, pos token.Pos, fn *ssa.Function, args []Value) Value {
		ts := bytesOf(args[0])
		c := termArg(args[1])
		for i, t := range ts {
			if p.branch(Cmp(OEq, t, c)) {
				return BV(64, uint64(i))
			}
		}
		return BV(64, ^uint64(0))
	})
	intrinsics["internal/bytealg.IndexByteString"] = intrinsics["internal/bytealg.IndexByte"]
	reg("internal/bytealg.Equal", func(p *Path, th *thread, caller *frame, pos token.Pos, fn *ssa.Function, args []Value) Value {
		a, b := bytesOf(args[0]), bytesOf(args[1])
		return strEq(mkStrTerms(a), mkStrTerms(b))
	})
	reg("internal/bytealg.MakeNoZero", func(p *Path, th *thread, caller *frame, pos token.Pos, fn *ssa.Function, args []Value) Value {
		n := int(p.concretize(termArg(args[0]), "MakeNoZero"))
		ts := make([]*Term, n)
		for i := range ts {
			ts[i] = BV(8, 0)
		}
		return mkByteSlice(ts)
	})
	reg("internal/race.Enabled", noop)
	reg("unsafe.String", nil)
	delete(intrinsics, "unsafe.String")
}

func (p *Path) note(s string) {
	for _, n := range p.notes {
		if n == s {
			return
		}
	}
	p.notes = append(p.notes, s)
}

func (p *Path) timerCell(t *timerObj) *Value {
	cell := new(Value)
	var ch Value = (*ChanObj)(nil)
	if t.ch != nil {
		ch = t.ch
	}
	*cell = StructVal{ch, tFalse}
	if p.timerOf == nil {
		p.timerOf = map[*Value]*timerObj{}
	}
	p.timerOf[cell] = t
	t.cell = cell
	return cell
}

// crcOf: uninterpreted-function model of CRC32 (congruence by syntactic identity of the byte terms).
func (p *Path) crcOf(ts []*Term) *Term {
	for _, c := range p.crcs {
		if len(c.in) != len(ts) {
			continue
		}
		same := true
		for i := range ts {
			if c.in[i] != ts[i] && !(c.in[i].IsConst() && ts[i].IsConst() && c.in[i].Val == ts[i].Val) {
				same = false
				break
			}
		}
		if same {
			return c.out
		}
	}
	out := p.fresh("crc", 32)
	p.crcs = append(p.crcs, crcRec{in: ts, out: out})
	p.note("stub: crc32.ChecksumIEEE on symbolic bytes = uninterpreted function (congruence only)")
	return out
}

type crcRec struct {
	in  []*Term
	out *Term
}

var _ = types.Typ

func init() {
	// io.CopyN(dst, src, n): byte-at-a-time so that a symbolic n forks linearly in the number of
	// available bytes instead of being enumerated over its whole range.
	reg("io.CopyN", func(p *Path, th *thread, caller *frame, pos token.Pos, fn *ssa.Function, args []Value) Value {
		dst, src := args[0].(IfaceVal), args[1].(IfaceVal)
		n := termArg(args[2])
		count := int64(0)
		for {
			if !p.branch(Cmp(OSlt, BV(64, uint64(count)), n)) {
				return TupleVal{BV(64, uint64(count)), IfaceVal{}}
			}
			one := mkByteSlice([]*Term{BV(8, 0)})
			var k uint64
			var rerr IfaceVal
			for tries := 0; ; tries++ {
				res := p.ifaceCall(th, caller, pos, src, "Read", one).(TupleVal)
				k = p.concretize(res[0].(*Term), "CopyN read")
				rerr = res[1].(IfaceVal)
				if k > 0 || rerr.T != nil || tries > 100 {
					break
				}
			}
			if k == 1 {
				w := p.ifaceCall(th, caller, pos, dst, "Write", one).(TupleVal)
				if we := w[1].(IfaceVal); we.T != nil {
					return TupleVal{BV(64, uint64(count)), we}
				}
				count++
			}
			if rerr.T != nil {
				// io.CopyN: a short copy reports EOF (or the read error)
				if p.branch(Cmp(OEq, BV(64, uint64(count)), n)) {
					return TupleVal{BV(64, uint64(count)), IfaceVal{}}
				}
				return TupleVal{BV(64, uint64(count)), rerr}
			}
			if k == 0 {
				return TupleVal{BV(64, uint64(count)), p.ioEOF()}
			}
		}
	})
}

func init() {
	// memberlist.kRandomNodes(k, nodes, exclude): nondeterministic choice of min(k, #eligible) distinct eligible
	// nodes (rotation of the eligible list). The real function's random probing may also return fewer; not modelled.
	reg(mlPkg+".kRandomNodes", func(p *Path, th *thread, caller *frame, pos token.Pos, fn *ssa.Function, args []Value) Value {
		if p.kRandomReal {
			// the real function, executed from its SSA (rand.* stubbed as usual)
			return p.callSSA(th, caller, pos, fn, args, nil)
		}
		k := int(p.concretize(termArg(args[0]), "kRandomNodes k"))
		nodes := args[1].(SliceVal)
		var elig []Value
		for i := 0; i < nodes.N; i++ {
			ns := nodes.Back[i].(*Value)
			ex := tFalse
			if _, isNil := args[2].(FuncNil); !isNil {
				ex = p.call(th, caller, pos, args[2], []Value{ns}).(*Term)
			}
			if !p.branch(ex) {
				// state.Node (field 0 of nodeState)
				elig = append(elig, copyVal((*ns).(StructVal)[0]))
			}
		}
		p.note("stub: kRandomNodes = nondeterministic choice of min(k, #eligible) eligible nodes")
		if k > len(elig) {
			k = len(elig)
		}
		out := make([]Value, 0, k)
		if k > 0 {
			rot := 0
			if !p.kRandomDet {
				rot = p.choose(len(elig))
			} else {
				p.note("bound: kRandomNodes picks the first eligible nodes in table order")
			}
			for i := 0; i < k; i++ {
				out = append(out, elig[(rot+i)%len(elig)])
			}
		}
		return SliceVal{Back: out, N: len(out), Nil: false}
	})
}

// toGo converts a concrete interpreter value (as passed in a ...interface{} list) to a Go value for formatting.
func (p *Path) toGo(th *thread, fr *frame, pos token.Pos, v Value) (interface{}, bool) {
	iv, ok := v.(IfaceVal)
	if !ok {
		return nil, false
	}
	if iv.T == nil {
		return nil, true
	}
	for _, mname := range []string{"Error", "String"} {
		sel := p.ex.prog.MethodSets.MethodSet(iv.T).Lookup(nil, mname)
		if sel == nil {
			continue
		}
		if m := p.ex.prog.MethodValue(sel); m != nil && m.Signature.Params().Len() == 0 && m.Signature.Results().Len() == 1 && isString(m.Signature.Results().At(0).Type()) {
			if name := m.String(); intrinsics[name] != nil || m.Blocks != nil {
				r, ok := p.callSSA(th, fr, pos, m, []Value{iv.V}, nil).(*StrVal)
				if !ok {
					return nil, false
				}
				s, c := r.Concrete()
				return s, c
			}
		}
	}
	switch x := iv.V.(type) {
	case *Term:
		if !x.IsConst() {
			return nil, false
		}
		w, signed, _ := intInfo(iv.T)
		if w == 0 {
			return x.Val != 0, true
		}
		if signed {
			return sx(x.Val, x.W), true
		}
		return x.Val, true
	case *StrVal:
		s, c := x.Concrete()
		return s, c
	case SliceVal:
		if x.Nil {
			return []byte(nil), true
		}
		b := make([]byte, x.N)
		for i := 0; i < x.N; i++ {
			t, ok := x.Back[i].(*Term)
			if !ok || !t.IsConst() || t.W != 8 {
				return nil, false
			}
			b[i] = byte(t.Val)
		}
		return b, true
	}
	return nil, false
}
