#!/usr/bin/env python3
"""run_seeded.py <seed-id> [tier] [property ...]  — applies /verif/seeded/<id>/patch.diff to /repo, runs the
check(s) of its property (or the listed ones), undoes the change, records the outcome in meta.json."""
import json, os, subprocess, sys

seed = sys.argv[1]
tier = sys.argv[2] if len(sys.argv) > 2 else "quick"
d = os.path.join("/verif/seeded", seed)
meta = json.load(open(os.path.join(d, "meta.json")))
props = sys.argv[3:] or [meta["property"]]
assert subprocess.run("git -C /repo status --porcelain", shell=True, capture_output=True, text=True).stdout.strip() == "", "/repo not clean"
subprocess.run("git -C /repo apply --whitespace=nowarn %s/patch.diff" % d, shell=True, check=True)
try:
    for p in props:
        r = subprocess.run(["/verif/check", p, tier], cwd="/verif", capture_output=True, text=True)
        lines = [l for l in r.stdout.splitlines() if l.startswith(("VIOLATION", "  detail", "INCONCLUSIVE", "KNOWN", "check "))]
        det = [l.split("id=")[1].split(" ")[0] for l in lines if l.startswith("  detail") and "id=" in l]
        meta.setdefault("checks", {})["%s/%s" % (p, tier)] = {"exit": r.returncode, "detected_by": det, "summary": lines[-1] if lines else ""}
        print(seed, p, tier, "exit", r.returncode, det[:4])
        for l in lines[:8]:
            print("   ", l[:220])
finally:
    subprocess.run("git -C /repo checkout -- .", shell=True, check=True)
json.dump(meta, open(os.path.join(d, "meta.json"), "w"), indent=1)
