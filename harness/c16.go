package memberlist

func init() {
	vRegister("H_C16_PacketRoundTrip", H_C16_PacketRoundTrip)
}

var vLabelLens = []int{1, 2, 16, 254, 255}

// C16 codec, packet side: add then remove returns exactly (payload, label).
func H_C16_PacketRoundTrip() {
	ll := vLabelLens[vPick(len(vLabelLens))]
	label := string(vBytes(ll))
	payload := vBytes(vPick(4))
	out, err := AddLabelHeaderToPacket(payload, label)
	vAssert(err == nil, "c16.pkt.add-ok")
	vAssert(len(out) == 2+ll+len(payload), "c16.pkt.len")
	rest, got, err2 := RemoveLabelHeaderFromPacket(out)
	vAssert(err2 == nil, "c16.pkt.remove-ok")
	vAssert(vEqStr(got, label), "c16.pkt.label")
	vAssert(vEqBytes(rest, payload), "c16.pkt.payload")
	vCover("c16.pkt.roundtrip")
}
