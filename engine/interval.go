package main

// Signed-interval pre-filter for branch conditions (cluster mode only). Ranges come from vRange declarations,
// whose bounds are part of the path condition, so an interval verdict is implied by the path condition; anything
// the filter cannot settle goes to the solver as before. The verdict depends only on the terms, so a re-executed
// prefix takes the same shortcuts.

import (
	"math"
	"math/big"
)

type ival struct{ lo, hi int64 }

func (p *Path) interval(t *Term) (ival, bool) {
	if t.W != 64 {
		return ival{}, false
	}
	switch t.Op {
	case OConst:
		return ival{int64(t.Val), int64(t.Val)}, true
	case OVar:
		r, ok := p.ranges[t.Name]
		return r, ok
	case OAdd:
		a, ok1 := p.interval(t.A[0])
		b, ok2 := p.interval(t.A[1])
		if !ok1 || !ok2 {
			return ival{}, false
		}
		lo, o1 := addOvf(a.lo, b.lo)
		hi, o2 := addOvf(a.hi, b.hi)
		if o1 || o2 {
			return ival{}, false
		}
		return ival{lo, hi}, true
	case OSub:
		a, ok1 := p.interval(t.A[0])
		b, ok2 := p.interval(t.A[1])
		if !ok1 || !ok2 || b.lo == math.MinInt64 {
			return ival{}, false
		}
		lo, o1 := addOvf(a.lo, -b.hi)
		hi, o2 := addOvf(a.hi, -b.lo)
		if o1 || o2 || b.hi == math.MinInt64 {
			return ival{}, false
		}
		return ival{lo, hi}, true
	case OIte:
		a, ok1 := p.interval(t.A[1])
		b, ok2 := p.interval(t.A[2])
		if !ok1 || !ok2 {
			return ival{}, false
		}
		if b.lo < a.lo {
			a.lo = b.lo
		}
		if b.hi > a.hi {
			a.hi = b.hi
		}
		return a, true
	}
	return ival{}, false
}

func addOvf(a, b int64) (int64, bool) {
	c := a + b
	if (a > 0 && b > 0 && c < 0) || (a < 0 && b < 0 && c >= 0) {
		return 0, true
	}
	return c, false
}

// intervalBool: (value, decided) for signed comparisons and their boolean combinations.
func (p *Path) intervalBool(c *Term) (bool, bool) {
	switch c.Op {
	case OConst:
		return c.Val == 1, true
	case OSle, OSlt:
		a, ok1 := p.interval(c.A[0])
		b, ok2 := p.interval(c.A[1])
		if !ok1 || !ok2 {
			return false, false
		}
		// neither side wraps, so both denote their mathematical value: compare the linear forms (shared
		// symbolic parts such as the epoch cancel)
		if la, oka := p.linear(c.A[0]); oka {
			if lb, okb := p.linear(c.A[1]); okb {
				lo, hi := p.linDiffRange(la, lb) // range of b - a
				if c.Op == OSle {
					if lo.Sign() >= 0 {
						return true, true
					}
					if hi.Sign() < 0 {
						return false, true
					}
				} else {
					if lo.Sign() > 0 {
						return true, true
					}
					if hi.Sign() <= 0 {
						return false, true
					}
				}
			}
		}
		if c.Op == OSle {
			if a.hi <= b.lo {
				return true, true
			}
			if a.lo > b.hi {
				return false, true
			}
		} else {
			if a.hi < b.lo {
				return true, true
			}
			if a.lo >= b.hi {
				return false, true
			}
		}
	case OBNot:
		v, ok := p.intervalBool(c.A[0])
		return !v, ok
	case OBAnd:
		all := true
		for _, x := range c.A {
			v, ok := p.intervalBool(x)
			if ok && !v {
				return false, true
			}
			if !ok {
				all = false
			}
		}
		if all {
			return true, true
		}
	case OBOr:
		none := true
		for _, x := range c.A {
			v, ok := p.intervalBool(x)
			if ok && v {
				return true, true
			}
			if !ok {
				none = false
			}
		}
		if none {
			return false, true
		}
	}
	return false, false
}

type linForm struct {
	k map[string]int64
	c *big.Int
}

func (p *Path) linear(t *Term) (linForm, bool) {
	switch t.Op {
	case OConst:
		return linForm{k: map[string]int64{}, c: big.NewInt(int64(t.Val))}, true
	case OVar:
		if _, ok := p.ranges[t.Name]; !ok {
			return linForm{}, false
		}
		return linForm{k: map[string]int64{t.Name: 1}, c: big.NewInt(0)}, true
	case OAdd, OSub:
		a, ok1 := p.linear(t.A[0])
		b, ok2 := p.linear(t.A[1])
		if !ok1 || !ok2 {
			return linForm{}, false
		}
		r := linForm{k: map[string]int64{}, c: new(big.Int).Set(a.c)}
		for n, k := range a.k {
			r.k[n] = k
		}
		sign := int64(1)
		if t.Op == OSub {
			sign = -1
			r.c.Sub(r.c, b.c)
		} else {
			r.c.Add(r.c, b.c)
		}
		for n, k := range b.k {
			r.k[n] += sign * k
			if r.k[n] > 1<<20 || r.k[n] < -(1<<20) {
				return linForm{}, false
			}
		}
		return r, true
	}
	return linForm{}, false
}

// linDiffRange: the range of b - a over the declared variable ranges.
func (p *Path) linDiffRange(a, b linForm) (*big.Int, *big.Int) {
	lo := new(big.Int).Sub(b.c, a.c)
	hi := new(big.Int).Set(lo)
	ks := map[string]int64{}
	for n, k := range b.k {
		ks[n] += k
	}
	for n, k := range a.k {
		ks[n] -= k
	}
	for n, k := range ks {
		if k == 0 {
			continue
		}
		r := p.ranges[n]
		x := new(big.Int).Mul(big.NewInt(k), big.NewInt(r.lo))
		y := new(big.Int).Mul(big.NewInt(k), big.NewInt(r.hi))
		if x.Cmp(y) > 0 {
			x, y = y, x
		}
		lo.Add(lo, x)
		hi.Add(hi, y)
	}
	return lo, hi
}

// narrow: a decided branch condition that is a signed comparison of linear forms differing in exactly one ranged
// variable tightens that variable's range (the condition is part of the path condition from here on, so the
// tighter range stays implied by it). Conjunctions taken as true narrow through every conjunct.
func (p *Path) narrow(c *Term, outcome bool) {
	switch c.Op {
	case OBNot:
		p.narrow(c.A[0], !outcome)
		return
	case OBAnd:
		if outcome {
			for _, x := range c.A {
				p.narrow(x, true)
			}
		}
		return
	case OBOr:
		if !outcome {
			for _, x := range c.A {
				p.narrow(x, false)
			}
		}
		return
	case OSle, OSlt:
	default:
		return
	}
	if _, ok := p.interval(c.A[0]); !ok {
		return
	}
	if _, ok := p.interval(c.A[1]); !ok {
		return
	}
	la, ok1 := p.linear(c.A[0])
	lb, ok2 := p.linear(c.A[1])
	if !ok1 || !ok2 {
		return
	}
	// d = b - a = k*v + c0
	ks := map[string]int64{}
	for n, k := range lb.k {
		ks[n] += k
	}
	for n, k := range la.k {
		ks[n] -= k
	}
	var v string
	var k int64
	for n, x := range ks {
		if x != 0 {
			if v != "" {
				return
			}
			v, k = n, x
		}
	}
	if v == "" {
		return
	}
	c0 := new(big.Int).Sub(lb.c, la.c)
	// the fact established: a <= b (d >= 0), a < b (d >= 1), or their negations a > b (d <= -1), a >= b (d <= 0)
	var lower bool // fact has the form d >= t (true) or d <= t (false)
	var t int64
	switch {
	case c.Op == OSle && outcome:
		lower, t = true, 0
	case c.Op == OSlt && outcome:
		lower, t = true, 1
	case c.Op == OSle && !outcome:
		lower, t = false, -1
	default:
		lower, t = false, 0
	}
	// k*v >= t - c0  or  k*v <= t - c0
	rhs := new(big.Int).Sub(big.NewInt(t), c0)
	if k < 0 {
		k = -k
		rhs.Neg(rhs)
		lower = !lower
	}
	kk := big.NewInt(k)
	r := p.ranges[v]
	q, m := new(big.Int).DivMod(rhs, kk, new(big.Int)) // floor division (k > 0)
	if lower {
		// v >= ceil(rhs/k)
		if m.Sign() != 0 {
			q.Add(q, big.NewInt(1))
		}
		if q.IsInt64() && q.Int64() > r.lo {
			r.lo = q.Int64()
		}
	} else {
		// v <= floor(rhs/k)
		if q.IsInt64() && q.Int64() < r.hi {
			r.hi = q.Int64()
		}
	}
	if r.lo <= r.hi {
		p.ranges[v] = r
	}
}
