package memberlist

import (
	"io"
	"net"
	"time"
)

// vConn is a scripted stream: Read serves `in` (at most frag bytes per call when frag>0) and then
// EOF (or a timeout error when hang is set, modelling a peer that stops sending); Write records.
type vConn struct {
	in        []byte
	pos       int
	frag      int
	out       []byte
	writes    int
	closed    int
	deadlines int
	readsBeforeDeadline int
	writeErr  bool
	hang      bool
	delay     time.Duration // the scripted input only becomes readable this long after the first Read
	deadline  time.Time
	waited    bool
	stallAt   int    // with onStall: the input pauses after this many bytes; onStall runs before the rest is served
	onStall   func()
}

type vTimeoutErr struct{}

func (vTimeoutErr) Error() string   { return "verif: i/o timeout" }
func (vTimeoutErr) Timeout() bool   { return true }
func (vTimeoutErr) Temporary() bool { return true }

func (c *vConn) Read(p []byte) (int, error) {
	if c.deadlines == 0 {
		c.readsBeforeDeadline++
	}
	if c.delay > 0 && !c.waited {
		// the peer answers late: the read returns at the answer or at the deadline, whichever comes first
		c.waited = true
		avail := time.Now().Add(c.delay)
		if !c.deadline.IsZero() && c.deadline.Before(avail) {
			time.Sleep(time.Until(c.deadline))
			c.waited = false
			c.delay = avail.Sub(time.Now())
			return 0, vTimeoutErr{}
		}
		time.Sleep(c.delay)
	}
	if c.pos >= len(c.in) {
		if c.hang {
			return 0, vTimeoutErr{}
		}
		return 0, io.EOF
	}
	n := len(c.in) - c.pos
	if c.onStall != nil {
		if c.pos < c.stallAt {
			if n > c.stallAt-c.pos {
				n = c.stallAt - c.pos
			}
		} else {
			f := c.onStall
			c.onStall = nil
			f()
		}
	}
	if n > len(p) {
		n = len(p)
	}
	if c.frag > 0 && n > c.frag {
		n = c.frag
	}
	copy(p, c.in[c.pos:c.pos+n])
	c.pos += n
	return n, nil
}
func (c *vConn) Write(p []byte) (int, error) {
	if c.writeErr {
		return 0, vErr{}
	}
	c.out = append(c.out, p...)
	c.writes++
	return len(p), nil
}
func (c *vConn) Close() error                       { c.closed++; return nil }
func (c *vConn) LocalAddr() net.Addr                { return vAddr("10.0.0.1:7946") }
func (c *vConn) RemoteAddr() net.Addr               { return vAddr("10.0.0.2:7946") }
func (c *vConn) SetDeadline(t time.Time) error      { c.deadlines++; c.deadline = t; return nil }
func (c *vConn) SetReadDeadline(t time.Time) error  { c.deadlines++; return nil }
func (c *vConn) SetWriteDeadline(t time.Time) error { c.deadlines++; return nil }

// vDuplex is one end of an in-memory full-duplex stream built on channels: Read blocks until the peer
// writes or closes. Works natively and under the engine's thread scheduler alike.
type vDuplex struct {
	in      chan []byte
	out     chan []byte
	pending []byte
	closed  int
	deadlines int
	wrote   []byte
}

func vNewDuplex() (*vDuplex, *vDuplex) {
	ab, ba := make(chan []byte, 16), make(chan []byte, 16)
	return &vDuplex{in: ba, out: ab}, &vDuplex{in: ab, out: ba}
}

func (c *vDuplex) Read(p []byte) (int, error) {
	if len(c.pending) == 0 {
		b, ok := <-c.in
		if !ok {
			return 0, io.EOF
		}
		c.pending = b
	}
	n := copy(p, c.pending)
	c.pending = c.pending[n:]
	return n, nil
}
func (c *vDuplex) Write(p []byte) (int, error) {
	if c.closed > 0 {
		return 0, vErr{}
	}
	cp := append([]byte(nil), p...)
	c.wrote = append(c.wrote, cp...)
	c.out <- cp
	return len(p), nil
}
func (c *vDuplex) Close() error {
	if c.closed == 0 {
		close(c.out)
	}
	c.closed++
	return nil
}
func (c *vDuplex) LocalAddr() net.Addr                { return vAddr("10.0.0.1:7946") }
func (c *vDuplex) RemoteAddr() net.Addr               { return vAddr("10.0.0.2:7946") }
func (c *vDuplex) SetDeadline(t time.Time) error      { c.deadlines++; return nil }
func (c *vDuplex) SetReadDeadline(t time.Time) error  { return nil }
func (c *vDuplex) SetWriteDeadline(t time.Time) error { return nil }
