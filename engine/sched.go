package main

// Cooperative threads (one Go goroutine each, baton passing), channels, select,
// virtual-time timers, mutexes. Scheduling choices are ordinary decision points.

import (
	"fmt"
	"go/token"
	"go/types"

	"golang.org/x/tools/go/ssa"
)

type thread struct {
	id       int
	p        *Path
	resume   chan struct{}
	finished bool
	blocked  func() bool // nil = runnable; else returns true when it may proceed
	what     string
	daemon   bool
	blockWhat string
	exited   chan struct{}
}

type timerObj struct {
	deadline *Term
	fn       Value    // AfterFunc callback
	ch       *ChanObj // After/NewTimer/Ticker channel
	active   bool
	period   *Term // ticker
	id       int
	cell     *Value
}

type lockState struct {
	writer  bool
	readers int
}

func (p *Path) newThread() *thread {
	th := &thread{id: len(p.threads), p: p, resume: make(chan struct{}), exited: make(chan struct{})}
	p.threads = append(p.threads, th)
	return th
}

func (p *Path) spawn(fn Value, args []Value, pos token.Pos) *thread {
	th := p.newThread()
	th.what = fmt.Sprintf("go@%s", p.posStr(pos))
	if lim := p.ex.maxThreads; (p.maxThreadsOpt == 0 && len(p.threads) > lim) || (p.maxThreadsOpt > 0 && len(p.threads) > p.maxThreadsOpt) {
		p.inconc = append(p.inconc, "thread bound exceeded")
		p.abort("unwind: threads")
	}
	go func() {
		defer close(th.exited)
		<-th.resume
		if p.dead {
			return
		}
		var escaped interface{}
		func() {
			defer func() {
				if r := recover(); r != nil {
					escaped = r
				}
			}()
			p.call(th, nil, pos, fn, args)
		}()
		th.finished = true
		if escaped != nil {
			if _, ok := escaped.(threadKill); ok {
				return
			}
			// propagate aborts / target panics to the main thread via path state
			p.threadEscaped(th, escaped)
			return
		}
		p.threadDone(th)
	}()
	return th
}

// threadEscaped: a non-main thread hit an engine abort or an uncaught target panic.
func (p *Path) threadEscaped(th *thread, r interface{}) {
	p.pendingEscape = r
	// wake main thread so it can re-raise
	main := p.threads[0]
	p.cur = main
	main.resume <- struct{}{}
}

func (p *Path) threadDone(th *thread) {
	// hand the baton to someone else
	next := p.pickNext(nil)
	if next == nil {
		// nobody runnable: try timers, else wake main to report deadlock (main must be blocked)
		main := p.threads[0]
		p.cur = main
		main.resume <- struct{}{}
		return
	}
	p.cur = next
	next.resume <- struct{}{}
}

func (p *Path) runnable(th *thread) bool {
	if th.finished {
		return false
	}
	return th.blocked == nil || th.blocked()
}

// pickNext chooses among runnable threads other than 'except'.
func (p *Path) pickNext(except *thread) *thread {
	var c []*thread
	for _, t := range p.threads {
		if t != except && p.runnable(t) {
			c = append(c, t)
		}
	}
	if len(c) == 0 {
		return nil
	}
	if p.schedDet {
		return c[0]
	}
	return c[p.choose(len(c))]
}

func (p *Path) switchTo(me, next *thread) {
	p.cur = next
	next.resume <- struct{}{}
	<-me.resume
	if p.dead {
		panic(threadKill{})
	}
	if me.id == 0 && p.pendingEscape != nil {
		r := p.pendingEscape
		p.pendingEscape = nil
		panic(r)
	}
}

// block suspends the current thread until cond() holds.
func (p *Path) block(fr *frame, th *thread, cond func() bool, what string, pos token.Pos) {
	if cond() {
		return
	}
	th.blocked = cond
	th.blockWhat = what + " in " + fnName(fr) + " @" + p.posStr(pos)
	defer func() { th.blocked = nil }()
	for {
		next := p.pickNext(th)
		if next == nil {
			if cond() {
				return
			}
			// nobody else can run: advance virtual time to the next timer
			if p.fireNextTimer(fr) {
				if cond() {
					return
				}
				continue
			}
			p.obligation(tFalse, "deadlock", "deadlock@"+fnName(fr), "all threads blocked: "+what, fr, pos)
			p.abort("deadlock")
		}
		p.switchTo(th, next)
		if cond() {
			return
		}
	}
}

// yieldAll lets every other runnable thread run until it blocks or finishes.
func (p *Path) yieldAll(th *thread) {
	for n := 0; ; n++ {
		next := p.pickNext(th)
		if next == nil {
			return
		}
		if n > 100000 {
			// two threads yielding to each other forever (a harness must not yield from two threads at once)
			panic(engineErr{"vYield livelock: another thread keeps yielding back"})
		}
		p.switchTo(th, next)
	}
}

// preemptPoint: with a positive preemption budget, the scheduler may switch here.
func (p *Path) preemptPoint(th *thread) {
	if p.preempt <= 0 || th == nil {
		return
	}
	var c []*thread
	for _, t := range p.threads {
		if t != th && p.runnable(t) {
			c = append(c, t)
		}
	}
	if len(c) == 0 {
		return
	}
	k := p.choose(len(c) + 1)
	if k == 0 {
		return
	}
	p.preempt--
	p.switchTo(th, c[k-1])
}

func (p *Path) killThreads() {
	p.dead = true
	for _, t := range p.threads[1:] {
		if !t.finished {
			select {
			case t.resume <- struct{}{}:
			default:
				// thread is not parked on resume (never started or mid-handoff)
				go func(t *thread) { t.resume <- struct{}{} }(t)
			}
		}
	}
	for _, t := range p.threads[1:] {
		<-t.exited
	}
}

// ---- channels ----

func (p *Path) newChan(capacity int, et types.Type) *ChanObj {
	p.chanSeq++
	return &ChanObj{Cap: capacity, ET: et, id: p.chanSeq}
}

func (c *ChanObj) canRecv() bool { return len(c.Buf) > 0 || c.Closed || len(c.sendq) > 0 }
func (c *ChanObj) canSend() bool {
	return c.Closed || len(c.Buf) < c.Cap || len(c.recvq) > 0
}

func (p *Path) chanSend(fr *frame, c *ChanObj, v Value, pos token.Pos) {
	th := fr.th
	p.preemptPoint(th)
	if c == nil {
		p.block(fr, th, func() bool { return false }, "send on nil channel", pos)
	}
	if c.Closed {
		panic(targetPanic{v: IfaceVal{T: types.Typ[types.String], V: mkStr("send on closed channel")}, pos: p.posStr(pos), fn: fnName(fr)})
	}
	if c.Cap > 0 {
		p.block(fr, th, func() bool { return c.Closed || len(c.Buf) < c.Cap }, "chan send", pos)
		if c.Closed {
			panic(targetPanic{v: IfaceVal{T: types.Typ[types.String], V: mkStr("send on closed channel")}, pos: p.posStr(pos), fn: fnName(fr)})
		}
		c.Buf = append(c.Buf, copyVal(v))
		return
	}
	// unbuffered: a receiver already parked on the channel (plain receive or select) gets the value at once
	if c.handToReceiver(v) {
		return
	}
	// otherwise enqueue and wait until a receiver takes it
	w := &chanWaiter{th: th, val: copyVal(v)}
	c.sendq = append(c.sendq, w)
	p.block(fr, th, func() bool { return w.done || c.Closed }, "chan send (unbuffered)", pos)
	if !w.done {
		panic(targetPanic{v: IfaceVal{T: types.Typ[types.String], V: mkStr("send on closed channel")}, pos: p.posStr(pos), fn: fnName(fr)})
	}
}

func (c *ChanObj) take() (Value, bool) {
	if len(c.Buf) > 0 {
		v := c.Buf[0]
		c.Buf = c.Buf[1:]
		return v, true
	}
	for len(c.sendq) > 0 {
		w := c.sendq[0]
		c.sendq = c.sendq[1:]
		if w.sel != nil {
			if w.sel.done {
				continue
			}
			w.sel.done = true
			w.sel.chosen = w.idx
		}
		w.done = true
		return w.val, true
	}
	if c.Closed {
		return zero(c.ET), false
	}
	panic("take on empty channel")
}

func (p *Path) chanRecv(fr *frame, c *ChanObj, pos token.Pos) (Value, bool) {
	th := fr.th
	p.preemptPoint(th)
	if c == nil {
		p.block(fr, th, func() bool { return false }, "receive on nil channel", pos)
	}
	if c.Cap == 0 && !c.canRecvLive() {
		w := &chanWaiter{th: th}
		c.recvq = append(c.recvq, w)
		p.block(fr, th, func() bool { return w.done || c.canRecvLive() }, "chan recv", pos)
		if w.done {
			return w.val, w.ok
		}
		c.dropWaiter(w)
		return c.take()
	}
	p.block(fr, th, func() bool { return c.canRecvLive() }, "chan recv", pos)
	return c.take()
}

func (c *ChanObj) canRecvLive() bool {
	if len(c.Buf) > 0 || c.Closed {
		return true
	}
	for _, w := range c.sendq {
		if w.sel == nil || !w.sel.done {
			return true
		}
	}
	return false
}

func (p *Path) chanClose(fr *frame, c *ChanObj, pos token.Pos) {
	p.preemptPoint(fr.th)
	if c == nil {
		panic(targetPanic{v: IfaceVal{T: types.Typ[types.String], V: mkStr("close of nil channel")}, pos: p.posStr(pos), fn: fnName(fr)})
	}
	if c.Closed {
		panic(targetPanic{v: IfaceVal{T: types.Typ[types.String], V: mkStr("close of closed channel")}, pos: p.posStr(pos), fn: fnName(fr)})
	}
	c.Closed = true
}

func (p *Path) doSelect(fr *frame, instr *ssa.Select) Value {
	th := fr.th
	p.preemptPoint(th)
	type st struct {
		ch   *ChanObj
		send bool
		val  Value
	}
	states := make([]st, len(instr.States))
	for i, s := range instr.States {
		states[i].ch, _ = fr.get(s.Chan).(*ChanObj)
		states[i].send = s.Dir == types.SendOnly
		if s.Send != nil {
			states[i].val = fr.get(s.Send)
		}
	}
	ready := func() []int {
		var r []int
		for i, s := range states {
			if s.ch == nil {
				continue
			}
			if s.send {
				if s.ch.Closed || len(s.ch.Buf) < s.ch.Cap || (s.ch.Cap == 0 && p.hasLiveRecv(s.ch)) {
					r = append(r, i)
				}
			} else if s.ch.canRecvLive() {
				r = append(r, i)
			}
		}
		return r
	}
	r := ready()
	if len(r) == 0 {
		if !instr.Blocking {
			return p.selectResult(instr, -1, nil, false)
		}
		sw := &selWait{}
		var parked []*chanWaiter
		for i, st := range states {
			if st.ch != nil && !st.send && st.ch.Cap == 0 {
				w := &chanWaiter{th: th, sel: sw, idx: i}
				st.ch.recvq = append(st.ch.recvq, w)
				parked = append(parked, w)
			}
		}
		p.block(fr, th, func() bool { return sw.done || len(ready()) > 0 }, "select", instr.Pos())
		for _, w := range parked {
			states[w.idx].ch.dropWaiter(w)
		}
		if sw.done {
			return p.selectResult(instr, sw.chosen, sw.val, sw.ok)
		}
		r = ready()
	}
	i := r[p.choose(len(r))]
	s := states[i]
	if s.send {
		if s.ch.Closed {
			panic(targetPanic{v: IfaceVal{T: types.Typ[types.String], V: mkStr("send on closed channel")}, pos: p.posStr(instr.Pos()), fn: fnName(fr)})
		}
		if s.ch.Cap > 0 {
			s.ch.Buf = append(s.ch.Buf, copyVal(s.val))
		} else {
			// hand to a waiting receiver
			s.ch.handToReceiver(s.val)
		}
		return p.selectResult(instr, i, nil, false)
	}
	v, ok := s.ch.take()
	return p.selectResult(instr, i, v, ok)
}

func (p *Path) hasLiveRecv(c *ChanObj) bool {
	for _, w := range c.recvq {
		if !w.done && (w.sel == nil || !w.sel.done) {
			return true
		}
	}
	return false
}

// handToReceiver gives v to the first receiver parked on the unbuffered channel c (plain receive or select case).
func (c *ChanObj) handToReceiver(v Value) bool {
	for len(c.recvq) > 0 {
		w := c.recvq[0]
		c.recvq = c.recvq[1:]
		if w.done || (w.sel != nil && w.sel.done) {
			continue
		}
		w.val, w.ok, w.done = copyVal(v), true, true
		if w.sel != nil {
			w.sel.done, w.sel.chosen, w.sel.val, w.sel.ok = true, w.idx, w.val, true
		}
		return true
	}
	return false
}

func (c *ChanObj) dropWaiter(w *chanWaiter) {
	for i, x := range c.recvq {
		if x == w {
			c.recvq = append(c.recvq[:i:i], c.recvq[i+1:]...)
			return
		}
	}
}

func (p *Path) selectResult(instr *ssa.Select, chosen int, v Value, ok bool) Value {
	r := TupleVal{BV(64, uint64(int64(chosen))), BoolT(ok)}
	for i, s := range instr.States {
		if s.Dir == types.RecvOnly {
			if i == chosen && ok {
				r = append(r, v)
			} else {
				r = append(r, zero(s.Chan.Type().Underlying().(*types.Chan).Elem()))
			}
		}
	}
	return r
}

// ---- timers ----

func (p *Path) addTimer(d *Term, fn Value, ch *ChanObj) *timerObj {
	t := &timerObj{deadline: Bin(OAdd, p.now, d), fn: fn, ch: ch, active: true, id: len(p.timers)}
	p.timers = append(p.timers, t)
	if (p.maxTimersOpt == 0 && len(p.timers) > 64) || (p.maxTimersOpt > 0 && len(p.timers) > p.maxTimersOpt) {
		p.inconc = append(p.inconc, "timer bound exceeded")
		p.abort("unwind: timers")
	}
	return t
}

func (p *Path) activeTimers() []*timerObj {
	var r []*timerObj
	for _, t := range p.timers {
		if t.active {
			r = append(r, t)
		}
	}
	return r
}

// fireNextTimer advances time to the earliest pending deadline (solver-decided order) and fires it.
func (p *Path) fireNextTimer(fr *frame) bool {
	act := p.activeTimers()
	if len(act) == 0 {
		return false
	}
	for i, t := range act {
		if i == len(act)-1 {
			p.fireTimer(t)
			return true
		}
		c := tTrue
		for j, o := range act {
			if j != i {
				c = And(c, Cmp(OSle, t.deadline, o.deadline))
			}
		}
		if p.branch(c) {
			p.fireTimer(t)
			return true
		}
	}
	return false
}

func (p *Path) fireTimer(t *timerObj) {
	t.active = false
	if p.schedDet && !p.now.IsConst() || p.schedDet && !t.deadline.IsConst() {
		// cluster mode: keep the clock term small - decide now <= deadline once instead of nesting an ite per firing
		if p.branch(Cmp(OSle, p.now, t.deadline)) {
			p.now = t.deadline
		}
	} else {
		p.now = Ite(Cmp(OSlt, p.now, t.deadline), t.deadline, p.now)
	}
	if t.period != nil {
		t.deadline = Bin(OAdd, t.deadline, t.period)
		t.active = true
	}
	if t.ch != nil {
		if len(t.ch.Buf) < t.ch.Cap {
			t.ch.Buf = append(t.ch.Buf, p.timeVal(p.now))
		}
		return
	}
	if t.fn != nil {
		th := p.spawn(t.fn, nil, token.NoPos)
		th.what = fmt.Sprintf("timer#%d", t.id)
	}
}

func (p *Path) timeVal(ns *Term) Value {
	return StructVal{BV(64, 0), ns, (*Value)(nil)}
}

// ---- locks ----

func (p *Path) lockOf(cell *Value) *lockState {
	if p.locks == nil {
		p.locks = map[*Value]*lockState{}
	}
	l := p.locks[cell]
	if l == nil {
		l = &lockState{}
		p.locks[cell] = l
	}
	return l
}
