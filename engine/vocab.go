package main

// Harness vocabulary: functions named v* declared in the overlay harness files
// (package memberlist). The engine intercepts them; natively they read a replay vector.

import (
	"fmt"
	"go/token"
	"os"
	"strings"

	"golang.org/x/tools/go/ssa"
)

func vreg(name string, f intrinsicFn) { reg(mlPkg+"."+name, f) }

func init() {
	inp := func(kind string, w int) intrinsicFn {
		return func(p *Path, th *thread, caller *frame, pos token.Pos, fn *ssa.Function, args []Value) Value {
			t := p.input(kind, w)
			if kind == "bool" {
				return Cmp(OEq, t, BV(8, 1))
			}
			return t
		}
	}
	vreg("vU8", inp("u8", 8))
	vreg("vU16", inp("u16", 16))
	vreg("vU32", inp("u32", 32))
	vreg("vU64", inp("u64", 64))
	vreg("vInt", inp("int", 64))
	vreg("vBool", func(p *Path, th *thread, caller *frame, pos token.Pos, fn *ssa.Function, args []Value) Value {
		t := p.input("bool", 8)
		p.addPC(Cmp(OUle, t, BV(8, 1)))
		return Cmp(OEq, t, BV(8, 1))
	})
	vreg("vBytes", func(p *Path, th *thread, caller *frame, pos token.Pos, fn *ssa.Function, args []Value) Value {
		n := int(p.concretize(termArg(args[0]), "vBytes n"))
		ts := make([]*Term, n)
		for i := range ts {
			ts[i] = p.input("u8", 8)
		}
		return mkByteSlice(ts)
	})
	vreg("vPick", func(p *Path, th *thread, caller *frame, pos token.Pos, fn *ssa.Function, args []Value) Value {
		n := int(p.concretize(termArg(args[0]), "vPick n"))
		k := p.choose(n)
		t := BV(64, uint64(k))
		p.nondet = append(p.nondet, NondetRec{Kind: "pick", T: t})
		return t
	})
	vreg("vRange", func(p *Path, th *thread, caller *frame, pos token.Pos, fn *ssa.Function, args []Value) Value {
		t := p.input("int", 64)
		lo, hi := termArg(args[0]), termArg(args[1])
		p.assume(And(Cmp(OSle, lo, t), Cmp(OSle, t, hi)))
		if lo.IsConst() && hi.IsConst() && t.Op == OVar {
			if p.ranges == nil {
				p.ranges = map[string]ival{}
			}
			p.ranges[t.Name] = ival{int64(lo.Val), int64(hi.Val)}
		}
		return t
	})
	// vSize(lo, hi): a payload size. The engine explores a few representatives (both ends and the AES block
	// boundary just above lo); when a model does not reproduce natively, the replay driver sweeps the whole
	// range lo..hi natively (allocator size classes and buffer growth make some sizes special).
	vreg("vSize", func(p *Path, th *thread, caller *frame, pos token.Pos, fn *ssa.Function, args []Value) Value {
		lo := int(p.concretize(termArg(args[0]), "vSize lo"))
		hi := int(p.concretize(termArg(args[1]), "vSize hi"))
		var reps []int
		for _, c := range []int{lo, lo + 15, lo + 16, hi} {
			if c < lo || c > hi {
				continue
			}
			dup := false
			for _, r := range reps {
				dup = dup || r == c
			}
			if !dup {
				reps = append(reps, c)
			}
		}
		k := p.choose(len(reps))
		t := BV(64, uint64(reps[k]))
		p.nondet = append(p.nondet, NondetRec{Kind: fmt.Sprintf("size:%d:%d", lo, hi), T: t})
		return t
	})
	// vKnob(lo, hi): a native-only tuning input (e.g. how compressible a payload is) that the encoding does not
	// depend on: the engine takes lo; the replay driver sweeps lo..hi natively like a vSize.
	vreg("vKnob", func(p *Path, th *thread, caller *frame, pos token.Pos, fn *ssa.Function, args []Value) Value {
		lo := int(p.concretize(termArg(args[0]), "vKnob lo"))
		hi := int(p.concretize(termArg(args[1]), "vKnob hi"))
		t := BV(64, uint64(lo))
		p.nondet = append(p.nondet, NondetRec{Kind: fmt.Sprintf("size:%d:%d", lo, hi), T: t})
		return t
	})
	vreg("vAssume", func(p *Path, th *thread, caller *frame, pos token.Pos, fn *ssa.Function, args []Value) Value {
		p.assume(termArg(args[0]))
		return nil
	})
	vreg("vAssert", func(p *Path, th *thread, caller *frame, pos token.Pos, fn *ssa.Function, args []Value) Value {
		id, _ := concStr(args[1])
		p.obligation(termArg(args[0]), "assert", id, "harness assertion "+id, caller, pos)
		return nil
	})
	vreg("vCover", func(p *Path, th *thread, caller *frame, pos token.Pos, fn *ssa.Function, args []Value) Value {
		id, _ := concStr(args[0])
		p.cover(id)
		return nil
	})
	vreg("vUnwind", func(p *Path, th *thread, caller *frame, pos token.Pos, fn *ssa.Function, args []Value) Value {
		p.unwind = int(termArg(args[0]).Val)
		return nil
	})
	vreg("vExpectPanic", func(p *Path, th *thread, caller *frame, pos token.Pos, fn *ssa.Function, args []Value) Value {
		p.expectPanic, _ = concStr(args[0])
		return nil
	})
	vreg("vTier", func(p *Path, th *thread, caller *frame, pos token.Pos, fn *ssa.Function, args []Value) Value {
		return BV(64, uint64(p.ex.tier))
	})
	vreg("vSymbolic", func(p *Path, th *thread, caller *frame, pos token.Pos, fn *ssa.Function, args []Value) Value {
		return tTrue
	})
	vreg("vAnd", func(p *Path, th *thread, caller *frame, pos token.Pos, fn *ssa.Function, args []Value) Value {
		return And(termArg(args[0]), termArg(args[1]))
	})
	vreg("vOr", func(p *Path, th *thread, caller *frame, pos token.Pos, fn *ssa.Function, args []Value) Value {
		return Or(termArg(args[0]), termArg(args[1]))
	})
	vreg("vImp", func(p *Path, th *thread, caller *frame, pos token.Pos, fn *ssa.Function, args []Value) Value {
		return Or(Not(termArg(args[0])), termArg(args[1]))
	})
	vreg("vIteInt", func(p *Path, th *thread, caller *frame, pos token.Pos, fn *ssa.Function, args []Value) Value {
		return Ite(termArg(args[0]), termArg(args[1]), termArg(args[2]))
	})
	vreg("vEqBytes", func(p *Path, th *thread, caller *frame, pos token.Pos, fn *ssa.Function, args []Value) Value {
		return strEq(mkStrTerms(bytesOf(args[0])), mkStrTerms(bytesOf(args[1])))
	})
	vreg("vEqStr", func(p *Path, th *thread, caller *frame, pos token.Pos, fn *ssa.Function, args []Value) Value {
		return strEq(args[0].(*StrVal), args[1].(*StrVal))
	})
	vreg("vNow", func(p *Path, th *thread, caller *frame, pos token.Pos, fn *ssa.Function, args []Value) Value {
		return p.timeVal(p.now)
	})
	vreg("vAdvance", func(p *Path, th *thread, caller *frame, pos token.Pos, fn *ssa.Function, args []Value) Value {
		// advance virtual time by d, firing (in deadline order) every timer due on the way
		target := Bin(OAdd, p.now, termArg(args[0]))
		if p.schedDet {
			// goroutines started just before run at the current instant (code takes no time), as they do natively
			p.yieldAll(th)
		}
		for guard := 0; guard < 32 || (p.schedDet && guard < 4000); guard++ {
			fired := false
			for _, t := range p.activeTimers() {
				due := Cmp(OSle, t.deadline, target)
				earliest := tTrue
				for _, o := range p.activeTimers() {
					if o != t {
						earliest = And(earliest, Cmp(OSle, t.deadline, o.deadline))
					}
				}
				if p.branch(And(due, earliest)) {
					p.fireTimer(t)
					p.yieldAll(th)
					fired = true
					break
				}
			}
			if !fired {
				break
			}
		}
		if p.schedDet && !(p.now.IsConst() && target.IsConst()) {
			if p.branch(Cmp(OSle, p.now, target)) {
				p.now = target
			}
		} else {
			p.now = Ite(Cmp(OSlt, p.now, target), target, p.now)
		}
		return nil
	})
	// vLiveGoroutines: goroutines started since the harness began that have not finished (after letting all run)
	vreg("vLiveGoroutines", func(p *Path, th *thread, caller *frame, pos token.Pos, fn *ssa.Function, args []Value) Value {
		p.yieldAll(th)
		n := 0
		for _, t := range p.threads {
			if t != th && !t.finished {
				n++
			}
		}
		return BV(64, uint64(n))
	})
	vreg("vDumpThreads", func(p *Path, th *thread, caller *frame, pos token.Pos, fn *ssa.Function, args []Value) Value {
		for _, t := range p.threads {
			if !t.finished && t != th {
				fmt.Fprintf(os.Stderr, "THREAD %d %s blocked=%v %s\n", t.id, t.what, t.blocked != nil, t.blockWhat)
			}
		}
		fmt.Fprintf(os.Stderr, "NOW %s timers=%d\n", p.now.String(), len(p.timers))
		for _, t := range p.activeTimers() {
			fmt.Fprintf(os.Stderr, "TIMER %d deadline=%s fn=%v ch=%v\n", t.id, t.deadline.String(), t.fn != nil, t.ch != nil)
		}
		return nil
	})
	vreg("vYield", func(p *Path, th *thread, caller *frame, pos token.Pos, fn *ssa.Function, args []Value) Value {
		p.yieldAll(th)
		return nil
	})
	vreg("vOpt", func(p *Path, th *thread, caller *frame, pos token.Pos, fn *ssa.Function, args []Value) Value {
		name, _ := concStr(args[0])
		v := int(int64(termArg(args[1]).Val))
		if strings.HasPrefix(name, "callbound:") {
			if p.callBounds == nil {
				p.callBounds = map[string]int{}
				p.callCounts = map[string]int{}
			}
			p.callBounds[strings.TrimPrefix(name, "callbound:")] = v
			return nil
		}
		switch name {
		case "hostile-budget":
			p.hostileBudget = v
		case "forged-first-byte":
			p.forgedFirst = v
		case "preempt":
			p.preempt = v
		case "shuffle":
			p.optShuffle = v != 0
		case "enclen":
			p.encLen = v
		case "aead-tamper":
			p.aeadTamper = v != 0
		case "threads":
			p.maxThreadsOpt = v
		case "timers":
			p.maxTimersOpt = v
		case "sched-det":
			p.schedDet = v != 0
			if p.schedDet {
				p.note("bound: one scheduling order per timing assignment (runnable thread with the lowest id first)")
			}
		case "rand-zero":
			p.randZero = v != 0
		case "lzw-sizes":
			p.lzwSizes = v != 0
		case "krandom-real":
			p.kRandomReal = v != 0
		case "krandom-det":
			p.kRandomDet = v != 0
		case "decode-arbitrary":
			p.decodeArbOff = v == 0
		default:
			unsup("vOpt %s", name)
		}
		return nil
	})
	vreg("vAllocated", func(p *Path, th *thread, caller *frame, pos token.Pos, fn *ssa.Function, args []Value) Value {
		if p.allocTerm == nil {
			return BV(64, 0)
		}
		return p.allocTerm
	})
	vreg("vTimerPending", func(p *Path, th *thread, caller *frame, pos token.Pos, fn *ssa.Function, args []Value) Value {
		t := p.timerOf[args[0].(*Value)]
		if t == nil {
			return tFalse
		}
		return BoolT(t.active)
	})
	vreg("vTimerRemaining", func(p *Path, th *thread, caller *frame, pos token.Pos, fn *ssa.Function, args []Value) Value {
		t := p.timerOf[args[0].(*Value)]
		if t == nil {
			unsup("vTimerRemaining on unknown timer")
		}
		return Bin(OSub, t.deadline, p.now)
	})
	vreg("vFire", func(p *Path, th *thread, caller *frame, pos token.Pos, fn *ssa.Function, args []Value) Value {
		t := p.timerOf[args[0].(*Value)]
		if t == nil || !t.active {
			return tFalse
		}
		p.fireTimer(t)
		p.yieldAll(th)
		return tTrue
	})
}
