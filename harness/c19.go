package memberlist

import (
	"time"
)

func init() {
	vRegister("H_C19_Handlers", H_C19_Handlers)
	vRegister("H_C19_Awareness", H_C19_Awareness)
	vRegister("H_C19_IndirectPing", H_C19_IndirectPing)
	vRegister("H_C19_ProbeNode", H_C19_ProbeNode)
	vRegister("H_C19_TCPFallback", H_C19_TCPFallback)
}

// C19: acks/nacks are matched by sequence number only; handlers are removed on ack and reaped at their deadline.
func H_C19_Handlers() {
	conf := vBaseConfig()
	f := vNewML(conf)
	m := f.m
	f.vAddSelf(3, nil)
	seq1, seq2 := vU32(), vU32()
	vAssume(seq1 != seq2)
	ackCh := make(chan ackMessage, 2)
	nackCh := make(chan struct{}, 2)
	timeout := time.Duration(vRange(1, int(10*time.Second)))
	m.setProbeChannels(seq1, ackCh, nackCh, timeout)
	relayed := 0
	m.setAckHandler(seq2, func([]byte, time.Time) { relayed++ }, timeout)
	vAssert(len(m.ackHandlers) == 2, "c19.h.registered")

	s := vU32()
	isAck := vBool()
	payload := vBytes(vPick(2))
	if isAck {
		buf, err := encode(ackRespMsg, &ackResp{SeqNo: s, Payload: payload}, false)
		vAssert(err == nil, "c19.h.encode")
		m.handleAck(buf.Bytes()[1:], vAddr("10.0.0.2:1"), vNow())
	} else {
		buf, err := encode(nackRespMsg, &nackResp{SeqNo: s}, false)
		vAssert(err == nil, "c19.h.encode")
		m.handleNack(buf.Bytes()[1:], vAddr("10.0.0.2:1"))
	}
	switch {
	case s != seq1 && s != seq2:
		vAssert(len(m.ackHandlers) == 2 && len(ackCh) == 0 && len(nackCh) == 0 && relayed == 0, "c19.h.foreign-seq-no-effect")
		vCover("c19.h.foreign")
	case isAck && s == seq1:
		vAssert(len(m.ackHandlers) == 1 && m.ackHandlers[seq1] == nil, "c19.h.ack-removes-handler")
		vAssert(len(ackCh) == 1 && len(nackCh) == 0 && relayed == 0, "c19.h.ack-delivered-once")
		am := <-ackCh
		vAssert(am.Complete && vEqBytes(am.Payload, payload), "c19.h.ack-content")
		// a duplicate of the same ack has no further effect
		m.invokeAckHandler(ackResp{SeqNo: s}, vNow())
		vAssert(len(ackCh) == 0 && len(m.ackHandlers) == 1, "c19.h.duplicate-ack-ignored")
		vCover("c19.h.ack-probe")
	case isAck && s == seq2:
		vAssert(len(m.ackHandlers) == 1 && relayed == 1 && len(ackCh) == 0, "c19.h.ack-runs-relay-once")
		vCover("c19.h.ack-relay")
	case !isAck && s == seq1:
		vAssert(len(m.ackHandlers) == 2 && len(nackCh) == 1 && len(ackCh) == 0, "c19.h.nack-counted-handler-kept")
		vCover("c19.h.nack-probe")
	case !isAck && s == seq2:
		vAssert(len(m.ackHandlers) == 2 && len(nackCh) == 0 && relayed == 0, "c19.h.nack-without-nackfn-ignored")
		vCover("c19.h.nack-relay")
	}
	// deadline: every pending record is discarded; an unanswered probe gets exactly one Complete=false
	drained := len(ackCh)
	vAdvance(timeout)
	vAssert(len(m.ackHandlers) == 0, "c19.h.all-reaped-by-deadline")
	answered := isAck && s == seq1
	if answered {
		vAssert(len(ackCh) == drained, "c19.h.no-timeout-after-ack")
	} else {
		vAssert(len(ackCh) == 1, "c19.h.timeout-delivered-once")
		am := <-ackCh
		vAssert(!am.Complete, "c19.h.timeout-is-incomplete")
	}
	// late ack for an expired sequence number
	m.invokeAckHandler(ackResp{SeqNo: seq1}, vNow())
	m.invokeNackHandler(nackResp{SeqNo: seq1})
	vAssert(len(ackCh) == 0 && len(nackCh) <= 1 && relayed <= 1, "c19.h.late-ack-no-effect")
}

// C19: the health score stays in [0,max-1] and moves in the direction of the delta.
func H_C19_Awareness() {
	max := vRange(1, 1<<20)
	a := newAwareness(max, nil)
	a.score = vRange(0, 1<<20)
	vAssume(a.score < max)
	pre := a.score
	delta := vRange(-(1 << 40), 1<<40)
	a.ApplyDelta(delta)
	post := a.GetHealthScore()
	vAssert(post >= 0 && post <= max-1, "c19.aw.in-range")
	if delta >= 0 {
		vAssert(post >= pre, "c19.aw.nonneg-delta-never-lowers")
	}
	if delta <= 0 {
		vAssert(post <= pre, "c19.aw.nonpos-delta-never-raises")
	}
	if delta == 1 && pre < max-1 {
		vAssert(post == pre+1, "c19.aw.plus-one")
	}
	if delta == -1 && pre > 0 {
		vAssert(post == pre-1, "c19.aw.minus-one")
	}
	// ScaleTimeout is bounded by max x timeout
	b := newAwareness(8, nil)
	b.score = vPick(8)
	d := time.Duration(vRange(0, 1<<40))
	sc := b.ScaleTimeout(d)
	vAssert(sc >= d && sc <= 8*d, "c19.aw.scale-bounded")
	vCover("c19.aw")
}

func vDecodePkt(pkt []byte, out interface{}) (messageType, bool) {
	if len(pkt) < 1 {
		return 0, false
	}
	return messageType(pkt[0]), decode(pkt[1:], out) == nil
}

// C19: a node probing on another's behalf uses a fresh sequence number, relays success under the requester's
// number, and nacks exactly once iff asked and no ack came within the probe timeout.
func H_C19_IndirectPing() {
	conf := vBaseConfig()
	f := vNewML(conf)
	m := f.m
	f.vAddSelf(3, nil)
	m.sequenceNum = vU32()
	vAssume(m.sequenceNum < 0xFFFFFF00)
	reqSeq := vU32()
	wantNack := vBool()
	req := indirectPingReq{SeqNo: reqSeq, Target: []byte{10, 0, 0, 3}, Port: 7946, Node: vPeerB, Nack: wantNack,
		SourceAddr: []byte{10, 0, 0, 2}, SourcePort: 7946, SourceNode: vPeerA}
	buf, err := encode(indirectPingMsg, &req, false)
	vAssert(err == nil, "c19.ind.encode")
	before := m.sequenceNum
	m.handleIndirectPing(buf.Bytes()[1:], vAddr("10.0.0.2:7946"))
	vAssert(len(f.tr.packets) == 1, "c19.ind.ping-sent")
	var p ping
	mt, ok := vDecodePkt(f.tr.packets[0], &p)
	vAssert(ok && mt == pingMsg, "c19.ind.is-ping")
	fresh := before + 1
	vAssert(p.SeqNo == fresh, "c19.ind.fresh-seq")
	vAssert(p.Node == vPeerB && f.tr.to[0].Addr == "10.0.0.3:7946", "c19.ind.ping-to-target")
	vAssert(len(m.ackHandlers) == 1 && m.ackHandlers[fresh] != nil, "c19.ind.handler-registered")

	scenario := vPick(4)
	acked := false
	switch scenario {
	case 0: // the target answers in time
		vAdvance(time.Duration(vRange(0, int(conf.ProbeTimeout)-1)))
		m.invokeAckHandler(ackResp{SeqNo: fresh}, vNow())
		acked = true
	case 1: // nobody answers
	case 2: // an ack for some other sequence number
		other := vU32()
		vAssume(other != fresh)
		m.invokeAckHandler(ackResp{SeqNo: other}, vNow())
	case 3: // the answer comes too late
		vAdvance(conf.ProbeTimeout + time.Duration(vRange(1, int(time.Second))))
		m.invokeAckHandler(ackResp{SeqNo: fresh}, vNow())
	}
	vAdvance(2 * conf.ProbeTimeout)
	vYield()
	// classify what was sent back to the requester
	acks, nacks := 0, 0
	for i, pkt := range f.tr.packets[1:] {
		vAssert(f.tr.to[1+i].Addr == "10.0.0.2:7946" && f.tr.to[1+i].Name == vPeerA, "c19.ind.reply-to-requester")
		switch messageType(pkt[0]) {
		case ackRespMsg:
			var a ackResp
			_, ok := vDecodePkt(pkt, &a)
			vAssert(ok && a.SeqNo == reqSeq, "c19.ind.relay-uses-requester-seq")
			acks++
		case nackRespMsg:
			var n nackResp
			_, ok := vDecodePkt(pkt, &n)
			vAssert(ok && n.SeqNo == reqSeq, "c19.ind.nack-uses-requester-seq")
			nacks++
		default:
			vAssert(false, "c19.ind.unexpected-reply")
		}
	}
	if acked {
		vAssert(acks == 1 && nacks == 0, "c19.ind.success-relayed-no-nack")
	} else {
		vAssert(acks == 0, "c19.ind.no-relay-without-ack")
		if wantNack {
			vAssert(nacks == 1, "c19.ind.exactly-one-nack")
		} else {
			vAssert(nacks == 0, "c19.ind.no-nack-unless-requested")
		}
	}
	vAssert(len(m.ackHandlers) == 0, "c19.ind.handler-discarded")
	vCover("c19.ind")
}

// C19/C03/C04: one probe of one node under an arbitrary ack schedule. The probe counts as answered iff an ack
// with its own sequence number is handled before the (awareness-scaled) probe interval ends.
func H_C19_ProbeNode() {
	conf := vBaseConfig()
	// environment 4: only the TCP fallback gets through (UDP silent); otherwise TCP pings are off
	// environment 5: the direct ack is late (after ProbeTimeout) and the TCP fallback answers as well
	// environment 6: nothing answers and the TCP fallback's connection attempt hangs (crashed host, no RST)
	env := vPick(7)
	conf.DisableTcpPings = env < 4
	if env < 4 && vPick(2) == 1 {
		// the fallback is switched off for this peer only (per-node callback) instead of globally
		conf.DisableTcpPings = false
		conf.DisableTcpPingsForNode = func(string) bool { return true }
	}
	conf.IndirectChecks = vPick(2)
	conf.ProbeTimeout = 500 * time.Millisecond
	conf.ProbeInterval = time.Second
	conf.SuspicionMult = 30 // keeps the suspicion timeout (30s) out of the observation window
	f := vNewML(conf)
	m := f.m
	f.vAddSelf(3, nil)
	target := f.vAddConcreteAlive(vPeerA, 2)
	target.Incarnation = vU32()
	helper := f.vAddConcreteAlive(vPeerB, 3)
	helper.PMax = 3 // sends no nacks
	if conf.IndirectChecks == 1 && vPick(2) == 1 {
		helper.PMax = 4 // does
	}
	score := vPick(2 + vTier())
	m.awareness.score = score
	interval := conf.ProbeInterval * time.Duration(score+1)
	m.sequenceNum = vU32()
	vAssume(m.sequenceNum < 0xFFFFFF00)
	seq := m.sequenceNum + 1

	// environment: what comes back, and when
	var at time.Duration
	var tcp *vConn
	switch env {
	case 4:
		// the target answers the stream ping after a symbolic delay (possibly too late)
		reply := &vConn{}
		abuf, _ := encode(ackRespMsg, &ackResp{SeqNo: seq}, false)
		vAssert(m.rawSendMsgStream(reply, abuf.Bytes(), "") == nil, "c19.probe.mk-tcp-reply")
		// (the fallback only starts once the direct ack has been missing for ProbeTimeout)
		d := time.Duration(vRange(0, int(3*time.Second)))
		tcp = &vConn{in: reply.out, delay: d}
		f.tr.conn = tcp
		at = conf.ProbeTimeout + d
	case 6:
		f.tr.dialHang = true
	case 5:
		reply := &vConn{}
		abuf, _ := encode(ackRespMsg, &ackResp{SeqNo: seq}, false)
		vAssert(m.rawSendMsgStream(reply, abuf.Bytes(), "") == nil, "c19.probe.mk-tcp-reply")
		d := time.Duration(vRange(0, int(time.Second)))
		tcp = &vConn{in: reply.out, delay: d}
		f.tr.conn = tcp
		at = conf.ProbeTimeout + time.Duration(vRange(1, int(2*time.Second)))
		go func() { time.Sleep(at); m.invokeAckHandler(ackResp{SeqNo: seq}, time.Now()) }()
		if conf.ProbeTimeout+d < at {
			at = conf.ProbeTimeout + d
		}
	case 0: // direct ack
		at = time.Duration(vRange(0, int(3*time.Second)))
		go func() { time.Sleep(at); m.invokeAckHandler(ackResp{SeqNo: seq}, time.Now()) }()
	case 1: // silence
	case 2: // an ack for a foreign sequence number
		other := vU32()
		vAssume(other != seq)
		at = time.Duration(vRange(0, int(time.Second)))
		go func() { time.Sleep(at); m.invokeAckHandler(ackResp{SeqNo: other}, time.Now()) }()
	case 3: // only a nack from the helper
		at = time.Duration(vRange(0, int(time.Second)))
		go func() { time.Sleep(at); m.invokeNackHandler(nackResp{SeqNo: seq}) }()
	}
	start := vNow()
	node := *target
	m.probeNode(&node)
	took := vNow().Sub(start)
	vAdvance(4 * time.Second) // quiescence
	vYield()

	answered := (env == 0 || env == 4) && at < interval
	vAssert(took <= interval, "c19.probe.returns-within-scaled-interval")
	// nothing the probe started is still around once the interval and the stream timeout have passed
	vAssert(vLiveGoroutines() == 0, "c19.probe.no-goroutine-left")
	if env == 5 {
		if at < interval {
			vAssert(target.State == StateAlive && len(f.ev.log) == 0, "c19.probe.both-answer-not-suspected")
			vCover("c19.probe.both")
		} else if at > interval {
			vAssert(target.State == StateSuspect, "c19.probe.unanswered-suspected")
		}
	} else if env == 4 && at < interval {
		// answered over TCP only: the member stays, and the probe counts as a success for our own health
		vAssert(target.State == StateAlive && len(f.ev.log) == 0, "c19.probe.tcp-answer-not-suspected")
		want := score - 1
		if want < 0 {
			want = 0
		}
		vAssert(m.GetHealthScore() == want, "c19.probe.tcp-answer-improves-health")
		vAssert(tcp.closed == 1, "c19.probe.tcp-conn-closed")
		vCover("c19.probe.tcp")
	} else if (env == 0 || env == 4) && at == interval {
		// ack and deadline at the same instant: either order is a legal schedule
		vCover("c19.probe.tie")
	} else if answered && env == 0 {
		vAssert(target.State == StateAlive, "c19.probe.answered-not-suspected")
		vAssert(len(f.ev.log) == 0, "c19.probe.answered-no-event")
		if at < conf.ProbeTimeout {
			// C04: a timely direct ack means no escalation at all and a healthier score
			vAssert(len(f.tr.packets) == 1, "c19.probe.timely-ack-no-indirect")
			want := score - 1
			if want < 0 {
				want = 0
			}
			vAssert(m.GetHealthScore() == want, "c19.probe.timely-ack-improves-health")
			vCover("c19.probe.timely")
		}
		vCover("c19.probe.answered")
	} else {
		vAssert(target.State == StateSuspect, "c19.probe.unanswered-suspected")
		vAssert(m.nodeTimers[vPeerA] != nil, "c19.probe.suspicion-timer")
		vAssert(took == interval, "c19.probe.suspects-at-deadline")
		// health: with a nack-capable helper the penalty is the number of missing nacks, otherwise 1
		penalty := 1
		if conf.IndirectChecks == 1 && helper.PMax >= 4 {
			penalty = 1
			if env == 3 && at < interval {
				penalty = 0
			} else if env == 3 && at == interval {
				penalty = m.GetHealthScore() - score // tie: either is legal
			}
		}
		want := score + penalty
		if want > 7 {
			want = 7
		}
		vAssert(m.GetHealthScore() == want, "c19.probe.failure-health")
		vCover("c19.probe.suspected")
	}
	vAssert(len(m.ackHandlers) == 0, "c19.probe.handler-discarded")
}

// C19: the TCP fallback only counts an ack that carries the ping's own sequence number.
func H_C19_TCPFallback() {
	conf := vBaseConfig()
	f := vNewML(conf)
	m := f.m
	f.vAddSelf(3, nil)
	seq, back := vU32(), vU32()
	reply := &vConn{}
	kind := vPick(3)
	switch kind {
	case 0:
		buf, _ := encode(ackRespMsg, &ackResp{SeqNo: back}, false)
		vAssert(m.rawSendMsgStream(reply, buf.Bytes(), "") == nil, "c19.tcp.mk-reply")
	case 1:
		buf, _ := encode(nackRespMsg, &nackResp{SeqNo: back}, false)
		vAssert(m.rawSendMsgStream(reply, buf.Bytes(), "") == nil, "c19.tcp.mk-reply")
	case 2: // the peer hangs up
	}
	// the answer arrives after a symbolic delay; the probe's own deadline is one second away
	delay := time.Duration(vRange(0, int(3*time.Second)))
	conn := &vConn{in: reply.out, delay: delay}
	f.tr.conn = conn
	t0 := vNow()
	ok, err := m.sendPingAndWaitForAck(Address{Addr: "10.0.0.2:7946", Name: vPeerA}, ping{SeqNo: seq, Node: vPeerA}, vNow().Add(time.Second))
	vAssert(vNow().Sub(t0) <= time.Second, "c19.tcp.returns-by-the-probe-deadline")
	if ok {
		vAssert(err == nil && kind == 0 && back == seq, "c19.tcp.true-only-for-own-seq")
		vAssert(delay <= time.Second, "c19.tcp.late-ack-not-counted")
		vCover("c19.tcp.contact")
	} else {
		vAssert(!(kind == 0 && back == seq && delay < time.Second), "c19.tcp.matching-ack-accepted")
		vCover("c19.tcp.nocontact")
	}
	vAssert(conn.closed == 1, "c19.tcp.conn-closed")
}

// C19 through the public Ping API: the call reports success only for an acknowledgement of its own sequence
// number that arrives in time - never for silence, whatever the relation between ProbeInterval (which bounds the
// life of the pending record) and ProbeTimeout (which bounds the wait).
func H_C19_PingAPI() {
	conf := vBaseConfig()
	conf.ProbeTimeout = []time.Duration{500 * time.Millisecond, 2 * time.Second}[vPick(2)]
	conf.ProbeInterval = time.Second
	f := vNewML(conf)
	m := f.m
	f.vAddSelf(3, nil)
	env := vPick(3) // 0 silence, 1 own ack after a symbolic delay, 2 an ack for another sequence number
	delay := time.Duration(vRange(0, int(3*time.Second)))
	f.tr.onWrite = func(b []byte, a Address) {
		if len(b) == 0 || messageType(b[0]) != pingMsg {
			return
		}
		var p ping
		if decode(b[1:], &p) != nil {
			return
		}
		seq := p.SeqNo
		switch env {
		case 1:
			go func() { time.Sleep(delay); m.invokeAckHandler(ackResp{SeqNo: seq}, time.Now()) }()
		case 2:
			go func() { time.Sleep(delay); m.invokeAckHandler(ackResp{SeqNo: seq + 1}, time.Now()) }()
		}
	}
	start := vNow()
	rtt, err := m.Ping(vPeerA, vAddr("10.0.0.2:7946"))
	took := vNow().Sub(start)
	wait := conf.ProbeTimeout
	if conf.ProbeInterval < wait {
		wait = conf.ProbeInterval
	}
	switch env {
	case 1:
		if delay < wait {
			vAssert(err == nil, "c19.ping.timely-ack-is-success")
			vAssert(rtt == delay, "c19.ping.rtt")
			vCover("c19.ping.answered")
		} else if delay > wait {
			vAssert(err != nil, "c19.ping.late-ack-is-not-success")
		}
	default:
		vAssert(err != nil, "c19.ping.silence-is-not-success")
		vCover("c19.ping.unanswered")
	}
	vAssert(took <= conf.ProbeTimeout, "c19.ping.returns-by-the-timeout")
	vAdvance(4 * time.Second)
	vAssert(len(m.ackHandlers) == 0, "c19.ping.pending-record-discarded")
}

func init() { vRegister("H_C19_PingAPI", H_C19_PingAPI) }
