package memberlist

import "time"

func init() {
	vRegister("H_C07_Step", H_C07_Step)
	vRegister("H_C07_TimerReset", H_C07_TimerReset)
}

func vIsMemberState(present bool, s NodeStateType) bool {
	return vAnd(present, vAnd(s != StateDead, s != StateLeft))
}

// C07: per step, the delivered events are exactly the difference of Members() before/after.
func H_C07_Step() {
	conf := vBaseConfig()
	conf.DeadNodeReclaimTime = time.Duration(vRange(0, 1<<44))
	f := vNewML(conf)
	m := f.m
	f.vAddSelf(vU32(), vBytes(1))
	f.vAddConcreteAlive(vPeerB, 3)
	if vPick(2) == 1 {
		f.vAddNode(vPeerA, vMetaLen())
	}
	c := vArbClaim(vPeerA)
	pre := f.vSnapshot(vPeerA)
	preN := m.NumMembers()

	f.vDeliver(vPeerA, c)

	post := f.vSnapshot(vPeerA)
	memPre := vIsMemberState(pre.present, pre.state)
	memPost := vIsMemberState(post.present, post.state)
	log := f.ev.log
	vAssert(len(log) <= 1, "c07.at-most-one-event")
	for _, e := range log {
		vAssert(e.name == vPeerA, "c07.event-names-target")
	}
	if !memPre && memPost {
		vAssert(len(log) == 1 && log[0].kind == 1, "c07.join-event")
		if len(log) == 1 {
			vAssert(vEqBytes(log[0].meta, post.meta), "c07.join-carries-meta")
			vAssert(vEqBytes(log[0].addr, post.addr), "c07.join-carries-addr")
		}
		vAssert(m.NumMembers() == preN+1, "c07.join-count")
		vCover("c07.join")
	} else if memPre && !memPost {
		vAssert(len(log) == 1 && log[0].kind == 2, "c07.leave-event")
		vAssert(m.NumMembers() == preN-1, "c07.leave-count")
		vCover("c07.leave")
	} else if memPre && memPost && !vEqBytes(pre.meta, post.meta) {
		vAssert(len(log) == 1 && log[0].kind == 3, "c07.update-event")
		if len(log) == 1 {
			vAssert(vEqBytes(log[0].meta, post.meta), "c07.update-carries-meta")
		}
		vAssert(m.NumMembers() == preN, "c07.update-count")
		vCover("c07.update")
	} else {
		vAssert(len(log) == 0, "c07.no-spurious-event")
		vAssert(m.NumMembers() == preN, "c07.quiet-count")
		vCover("c07.quiet")
	}
	vAssert(f.vIsMember(vPeerA) == memPost, "c07.members-agrees")
	vAssert(f.ev.unlocked == 0, "c07.callbacks-under-node-lock")
}

// C07: suspicion, timer expiry (fresh and stale) and reaping emit exactly the right events.
func H_C07_TimerReset() {
	conf := vBaseConfig()
	conf.GossipToTheDeadTime = time.Duration(vRange(0, 1<<40))
	f := vNewML(conf)
	m := f.m
	f.vAddSelf(1, nil)
	f.vAddConcreteAlive(vPeerB, 3)
	a := f.vAddConcreteAlive(vPeerA, 2)
	a.Incarnation = vU32()
	from := []string{vSelf, vPeerB}[vPick(2)]
	m.suspectNode(&suspect{Incarnation: a.Incarnation, Node: vPeerA, From: from})
	vAssert(len(f.ev.log) == 0, "c07.suspect-emits-nothing")
	vAssert(f.vIsMember(vPeerA), "c07.suspect-still-member")
	t := m.nodeTimers[vPeerA]
	vAssert(t != nil, "c07.suspect-has-timer")
	if t == nil {
		return
	}
	t.timeoutFn()
	vAssert(len(f.ev.log) == 1 && f.ev.log[0].kind == 2 && f.ev.log[0].name == vPeerA, "c07.timeout-leave-once")
	vAssert(!f.vIsMember(vPeerA), "c07.timeout-not-member")
	t.timeoutFn() // stale second firing
	vAssert(len(f.ev.log) == 1, "c07.stale-timeout-silent")
	preN := m.NumMembers()
	vAdvance(time.Duration(vRange(0, 1<<41)))
	m.resetNodes()
	vAssert(len(f.ev.log) == 1, "c07.reset-emits-nothing")
	vAssert(m.NumMembers() == preN, "c07.reset-keeps-members")
	vAssert(f.vIsMember(vSelf) && f.vIsMember(vPeerB), "c07.reset-keeps-live")
	vAssert(f.ev.unlocked == 0, "c07.timer-callbacks-under-node-lock")
	vCover("c07.timer-reset")
}
