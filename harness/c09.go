package memberlist

func init() {
	vRegister("H_C09_VerifyProtocol", H_C09_VerifyProtocol)
	vRegister("H_C09_Merge", H_C09_Merge)
	vRegister("H_C09_Truncated", H_C09_Truncated)
}

// C09: verifyProtocol against an independent pairwise rule.
func H_C09_VerifyProtocol() {
	conf := vBaseConfig()
	f := vNewML(conf)
	m := f.m
	nl := 1 + vPick(2)
	for i := 0; i < nl; i++ {
		ns := &nodeState{Node: Node{Name: []string{vSelf, vPeerA}[i], PMin: vU8(), PMax: vU8(), PCur: vU8(), DMin: vU8(), DMax: vU8(), DCur: vU8()},
			State: NodeStateType(vRange(0, 3))}
		m.nodes = append(m.nodes, ns)
		m.nodeMap[ns.Name] = ns
	}
	nr := 1 + vPick(2+vTier())
	remote := make([]pushNodeState, nr)
	for i := range remote {
		remote[i] = pushNodeState{Name: "r", State: NodeStateType(vRange(0, 3)), Vsn: vBytes([]int{0, 5, 6}[vPick(3)])}
	}
	err := m.verifyProtocol(remote)

	// reference: every speaker's current versions lie inside every alive, properly versioned node's understood range
	type rng struct{ pmin, pmax, dmin, dmax uint8; on bool }
	type spk struct{ pcur, dcur uint8 }
	var ranges []rng
	var speakers []spk
	for _, n := range m.nodes {
		ranges = append(ranges, rng{n.PMin, n.PMax, n.DMin, n.DMax, n.State == StateAlive})
		speakers = append(speakers, spk{n.PCur, n.DCur})
	}
	for _, r := range remote {
		if len(r.Vsn) >= 5 {
			ranges = append(ranges, rng{r.Vsn[0], r.Vsn[1], r.Vsn[3], r.Vsn[4], r.State == StateAlive})
		}
		s := spk{}
		if len(r.Vsn) >= 6 {
			s = spk{r.Vsn[2], r.Vsn[5]}
		}
		speakers = append(speakers, s)
	}
	ok := true
	for _, s := range speakers {
		for _, r := range ranges {
			in := vAnd(vAnd(r.pmin <= s.pcur, s.pcur <= r.pmax), vAnd(r.dmin <= s.dcur, s.dcur <= r.dmax))
			ok = vAnd(ok, vImp(r.on, in))
		}
	}
	vAssert((err == nil) == ok, "c09.verify.matches-pairwise-rule")
	vCover("c09.verify")
}

func vArbEntry(names []string) pushNodeState {
	e := pushNodeState{Name: names[vPick(len(names))], Incarnation: vU32(), State: NodeStateType(vPick(4)), Addr: vBytes(4), Port: vU16(), Meta: vBytes(vPick(2))}
	if vPick(2) == 1 {
		e.Vsn = vBytes(6)
	}
	return e
}

// C09: a vetoed / incompatible merge changes nothing; hearsay never kills; alive entries join.
func H_C09_Merge() {
	conf := vBaseConfig()
	f := vNewML(conf)
	m := f.m
	f.merge = &vMergeRec{veto: vBool()}
	conf.Merge = f.merge
	f.del = &vDelegateRec{}
	conf.Delegate = f.del
	selfInc := vU32()
	vAssume(selfInc < 0xFFFFFFF0)
	f.vAddSelf(selfInc, nil)
	pa := f.vAddConcreteAlive(vPeerA, 2)
	pa.Incarnation = vU32()
	pa.PMin, pa.PMax, pa.PCur = 1, 5, vU8()
	if vPick(2) == 1 {
		// the third member may already be under local suspicion when the remote state arrives
		vAssume(pa.Incarnation < 0xFFFFFFF0)
		m.suspectNode(&suspect{Incarnation: pa.Incarnation, Node: vPeerA, From: vSelf})
		m.broadcasts.Reset()
		vAssert(pa.State == StateSuspect && m.nodeTimers[vPeerA] != nil, "c09.merge.pre-suspected")
	}
	timers0 := len(m.nodeTimers)
	join := vBool()
	n := 1 + vPick(1+vTier())
	remote := make([]pushNodeState, 0, n)
	for i := 0; i < n; i++ {
		remote = append(remote, vArbEntry([]string{vPeerA, vPeerB, vSelf}))
	}
	if remote[0].Name == vSelf {
		vAssume(remote[0].Incarnation != 0xFFFFFFFF)
	}
	var user []byte
	if vPick(2) == 1 {
		user = vBytes(2)
	}
	preSelf, preA, preB := f.vSnapshot(vSelf), f.vSnapshot(vPeerA), f.vSnapshot(vPeerB)
	verr := m.verifyProtocol(remote)

	err := m.mergeRemoteState(join, remote, user)

	if err != nil {
		vAssert(f.vSameRecord(vSelf, preSelf) && f.vSameRecord(vPeerA, preA) && f.vSameRecord(vPeerB, preB), "c09.merge.rejected-table-untouched")
		vAssert(len(f.ev.log) == 0, "c09.merge.rejected-no-event")
		vAssert(m.broadcasts.NumQueued() == 0, "c09.merge.rejected-no-gossip")
		vAssert(len(f.del.merged) == 0, "c09.merge.rejected-no-user-state")
		vAssert(len(m.nodeTimers) == timers0, "c09.merge.rejected-no-timer")
		vAssert(m.incarnation.Load() == selfInc, "c09.merge.rejected-no-refute")
		vAssert(verr != nil || (join && f.merge.veto), "c09.merge.rejected-for-a-reason")
		vCover("c09.merge.rejected")
		return
	}
	vAssert(verr == nil, "c09.merge.accepted-only-if-compatible")
	vAssert(!(join && f.merge.veto), "c09.merge.veto-respected")
	if join {
		vAssert(f.merge.calls == 1, "c09.merge.delegate-consulted-on-join")
	} else {
		vAssert(f.merge.calls == 0, "c09.merge.delegate-only-on-join")
	}
	if user != nil {
		vAssert(len(f.del.merged) == 1 && vEqBytes(f.del.merged[0], user) && f.del.mergeJoin[0] == join, "c09.merge.user-state-delivered")
	} else {
		vAssert(len(f.del.merged) == 0, "c09.merge.no-user-state")
	}
	if n == 1 {
		e := remote[0]
		if e.Name == vPeerA && (e.State == StateDead || e.State == StateSuspect) {
			// hearsay about a third member: at most local suspicion
			vAssert(pa.State == StateAlive || pa.State == StateSuspect, "c09.merge.hearsay-never-kills")
			vAssert(f.vIsMember(vPeerA), "c09.merge.hearsay-keeps-member")
			if pa.State == StateSuspect {
				vAssert(m.nodeTimers[vPeerA] != nil, "c09.merge.hearsay-starts-timer")
			}
			vCover("c09.merge.hearsay")
		}
		if e.Name == vPeerB && e.State == StateAlive && e.Incarnation >= 1 {
			vsnOK := true
			if len(e.Vsn) >= 3 {
				vsnOK = vAnd(vAnd(e.Vsn[0] != 0, e.Vsn[1] != 0), e.Vsn[0] <= e.Vsn[1])
			}
			if vsnOK {
				vAssert(f.vIsMember(vPeerB), "c09.merge.reported-alive-is-listed")
				vCover("c09.merge.joined")
			}
		}
	}
	vCover("c09.merge.accepted")
}

// C09: a push/pull stream cut at any byte leaves the receiver untouched; the intact one merges.
func H_C09_Truncated() {
	// sender A produces the real push/pull bytes
	ca := vBaseConfig()
	ca.Name = vPeerA
	fa := vNewML(ca)
	fa.del = &vDelegateRec{localState: []byte{0xAA, 0xBB}}
	if vPick(2) == 1 {
		ca.Delegate = fa.del
	}
	na := &nodeState{Node: Node{Name: vPeerA, Addr: []byte{10, 0, 0, 2}, Port: 7946, PMin: 1, PMax: 5, PCur: 2}, Incarnation: 1 + vU32()%1000, State: StateAlive}
	fa.m.nodes = append(fa.m.nodes, na)
	fa.m.nodeMap[vPeerA] = na
	wire := &vConn{}
	join := vBool()
	vAssert(fa.m.sendLocalState(wire, join, "") == nil, "c09.trunc.send-ok")
	full := wire.out

	// receiver B
	cb := vBaseConfig()
	fb := vNewML(cb)
	fb.del = &vDelegateRec{}
	cb.Delegate = fb.del
	fb.vAddSelf(5, nil)
	// cut position counted from the end, so that 0 means intact in the token model and natively alike
	cut := len(full) - vPick(len(full)+1)
	conn := &vConn{in: full[:cut], frag: vPick(2)}
	// the exchange can also be cut in the other direction: the request arrives intact, the reply cannot be written
	replyFails := cut == len(full) && vPick(2) == 1
	conn.writeErr = replyFails
	fb.m.handleConn(conn)
	if replyFails {
		vAssert(len(fb.m.nodes) == 1 && fb.m.nodeMap[vPeerA] == nil, "c09.trunc.reply-failed-changes-nothing")
		vAssert(len(fb.ev.log) == 0 && len(fb.del.merged) == 0 && fb.m.broadcasts.NumQueued() == 0, "c09.trunc.reply-failed-no-effects")
		vAssert(conn.closed == 1 && fb.m.pushPullReq.Load() == 0, "c09.trunc.reply-failed-cleanup")
		vCover("c09.trunc.reply-failed")
		return
	}

	vAssert(conn.closed == 1, "c09.trunc.closed-once")
	vAssert(conn.readsBeforeDeadline == 0, "c09.trunc.deadline-before-read")
	vAssert(fb.m.pushPullReq.Load() == 0, "c09.trunc.counter-restored")
	if cut < len(full) {
		vAssert(len(fb.m.nodes) == 1 && fb.m.nodeMap[vPeerA] == nil, "c09.trunc.cut-changes-nothing")
		vAssert(len(fb.ev.log) == 0, "c09.trunc.cut-no-event")
		vAssert(fb.m.broadcasts.NumQueued() == 0, "c09.trunc.cut-no-gossip")
		vAssert(len(fb.del.merged) == 0, "c09.trunc.cut-no-user-state")
		vCover("c09.trunc.cut")
	} else {
		vAssert(fb.vIsMember(vPeerA), "c09.trunc.intact-merges")
		vAssert(len(fb.ev.log) == 1 && fb.ev.log[0].kind == 1, "c09.trunc.intact-join-event")
		if ca.Delegate != nil {
			vAssert(len(fb.del.merged) == 1 && vEqBytes(fb.del.merged[0], []byte{0xAA, 0xBB}), "c09.trunc.intact-user-state")
		}
		vAssert(len(conn.out) > 0, "c09.trunc.replied-with-local-state")
		vCover("c09.trunc.intact")
	}
}

func init() {
	vRegister("H_C09_JoinMutual", H_C09_JoinMutual)
}

// C09 mutual join over a real full-duplex stream: when the joiner's push/pull returns nil it lists the host and
// every member the host reported alive; the host lists the joiner as soon as its handler finishes; no further
// messages are needed. Under every encryption / label / compression setting.
func H_C09_JoinMutual() {
	c := vPickNetCfg()
	ca, cb := vBaseConfig(), vBaseConfig()
	ca.Name, cb.Name = vPeerA, vSelf
	c.apply(ca)
	c.apply(cb)
	fa, fb := vNewML(ca), vNewML(cb)
	fa.vAddSelfNamed(vPeerA) // joiner: knows only itself (10.0.0.2)
	fb.vAddSelf(3, nil)      // host 10.0.0.1 ...
	third := fb.vAddConcreteAlive(vPeerB, 3) // ... which also knows a third live member
	third.PMin, third.PMax, third.PCur = 1, 5, ca.ProtocolVersion
	fb.m.nodeMap[vSelf].PCur = cb.ProtocolVersion
	if vPick(2) == 1 {
		// a member the host believes dead must not be adopted as a live member by the joiner
		d := fb.vAddConcreteAlive("n3", 4)
		d.State = StateDead
		d.PMin, d.PMax, d.PCur = 1, 5, ca.ProtocolVersion
	}
	if vPick(2) == 1 {
		// the joiner may already list the host as alive (learnt by hearsay, or an earlier incarnation of the
		// host at the same address) while the host does not know the joiner: Join must still do the exchange
		h := fa.vAddConcreteAlive(vSelf, 1)
		h.PMin, h.PMax, h.PCur = 1, 5, cb.ProtocolVersion
	}
	ea, eb := vNewDuplex()
	fa.tr.conn = ea
	hostDone := false
	go func() { fb.m.handleConn(eb); hostDone = true }()

	// through the public API, addressed by name/ip:port or by bare ip:port
	n, err := fa.m.Join([]string{[]string{vSelf + "/10.0.0.1:7946", "10.0.0.1:7946", "10.0.0.1"}[vPick(3)]})

	vAssert(err == nil && n == 1, "c09.join.succeeds")
	if err != nil {
		return
	}
	vAssert(fa.vIsMember(vSelf), "c09.join.joiner-lists-host")
	vAssert(fa.vIsMember(vPeerB), "c09.join.joiner-lists-reported-alive")
	vAssert(!fa.vIsMember("n3"), "c09.join.joiner-does-not-list-reported-dead")
	vYield()
	vAssert(hostDone, "c09.join.host-handler-finished")
	vAssert(fb.vIsMember(vPeerA), "c09.join.host-lists-joiner")
	vAssert(ea.closed >= 1 && eb.closed >= 1, "c09.join.both-ends-closed")
	vAssert(len(fa.tr.packets) == 0 && len(fb.tr.packets) == 0, "c09.join.no-further-messages-needed")
	vCover("c09.join")
}
