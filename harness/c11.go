package memberlist

func init() {
	vRegister("H_C11_CompoundRoundTrip", H_C11_CompoundRoundTrip)
	vRegister("H_C11_DecodeHostile", H_C11_DecodeHostile)
}

// C11 lossless (content): makeCompoundMessage then decodeCompoundMessage returns exactly the parts.
func H_C11_CompoundRoundTrip() {
	n := vPick(4) // 0..3 parts
	msgs := make([][]byte, n)
	for i := 0; i < n; i++ {
		msgs[i] = vBytes(vPick(4)) // 0..3 bytes each
	}
	if n > 0 {
		// one part may be long enough to need both bytes of its length field
		if big := []int{0, 255, 256, 511, 65535}[vPick(5)]; big > 0 {
			i := vPick(n)
			msgs[i] = make([]byte, big)
			msgs[i][0], msgs[i][big-1] = vU8(), vU8()
		}
	}
	buf := makeCompoundMessage(msgs).Bytes()
	vAssert(buf[0] == byte(compoundMsg), "c11.rt.type")
	trunc, parts, err := decodeCompoundMessage(buf[1:])
	vAssert(err == nil, "c11.rt.err")
	vAssert(trunc == 0, "c11.rt.trunc")
	vAssert(len(parts) == n, "c11.rt.count")
	for i := 0; i < n && i < len(parts); i++ {
		vAssert(vEqBytes(parts[i], msgs[i]), "c11.rt.part")
	}
	vCover("c11.rt.done")
}

// C13/C11: decodeCompoundMessage on arbitrary bytes never panics and accounts for every declared part.
func H_C11_DecodeHostile() {
	buf := vBytes(vPick(9)) // 0..8 arbitrary bytes
	trunc, parts, err := decodeCompoundMessage(buf)
	if err == nil {
		vAssert(trunc+len(parts) == int(buf[0]), "c11.hostile.accounting")
		total := 0
		for _, p := range parts {
			total += len(p)
		}
		vAssert(total <= len(buf), "c11.hostile.total")
		vCover("c11.hostile.ok")
	} else {
		vCover("c11.hostile.err")
	}
}

func init() {
	vRegister("H_C11_Budget", H_C11_Budget)
	vRegister("H_C11_Count", H_C11_Count)
	vRegister("H_C11_Chunking", H_C11_Chunking)
}

// C11 budget: no packet assembled from queued broadcasts exceeds UDPBufferSize on the wire.
func H_C11_Budget() {
	c := &vNetCfg{enc: vPick(3), crc: vPick(2) == 1}
	c.label = string(vBytes([]int{0, 3}[vPick(2)]))
	if c.enc != 0 {
		c.key = vBytes(16)
	}
	conf := vBaseConfig()
	c.apply(conf) // (compression stays off here: it is only ever used when it shrinks the packet)
	if c.enc != 0 && vPick(2) == 1 {
		conf.GossipVerifyOutgoing = false // keyring present but nothing is encrypted on the way out
	}
	// the message the broadcasts are piggybacked on always fits on its own (59 = label 5 + crc 5 + encryption 45
	// + compound header 4); what is decided is whether adding queued broadcasts can overflow the buffer
	pingBuf, perr := encode(pingMsg, &ping{SeqNo: vU32(), Node: vPeerA}, false)
	vAssert(perr == nil, "c11.budget.encode")
	first := pingBuf.Bytes()
	conf.UDPBufferSize = len(first) + 59 + vRange(0, 40)
	f := vNewML(conf)
	m := f.m
	f.del = &vDelegateRec{}
	conf.Delegate = f.del
	f.vAddSelf(3, nil)
	peer := f.vAddConcreteAlive(vPeerA, 2)
	if c.crc {
		peer.PMax = 5
	} else {
		peer.PMax = 2
	}
	m.nodeMap["10.0.0.2"] = peer
	// queued membership broadcasts of three different sizes, user broadcasts of two sizes
	vOpt("enclen", 3)
	m.encodeBroadcastNotify("x", suspectMsg, &suspect{Node: "x"}, nil)
	vOpt("enclen", 6)
	m.encodeBroadcastNotify("y", suspectMsg, &suspect{Node: "y"}, nil)
	vOpt("enclen", 11)
	m.encodeBroadcastNotify("z", suspectMsg, &suspect{Node: "z"}, nil)
	vOpt("enclen", 3)
	// user broadcasts costing 4, 5 and 3 bytes each: together they can fill almost any remaining budget exactly
	f.del.bcast = [][]byte{vBytes(1), vBytes(2), vBytes(0), vBytes(1), vBytes(0), vBytes(0), vBytes(1), vBytes(0)}
	to := Address{Addr: "10.0.0.2:7946", Name: vPeerA}
	if vPick(2) == 0 {
		vAssert(m.sendMsg(to, first) == nil, "c11.budget.send-ok")
		vAssert(len(f.tr.packets) >= 1, "c11.budget.sent")
	} else {
		m.gossip() // may legitimately send nothing when no broadcast fits
	}
	for _, pkt := range f.tr.packets {
		vAssert(len(pkt) <= conf.UDPBufferSize, "c11.budget.packet-fits-udp-buffer")
	}
	vCover("c11.budget")
}

// C11 count fidelity: however many messages are piggybacked, the receiver unpacks exactly those messages.
func H_C11_Count() {
	conf := vBaseConfig()
	conf.UDPBufferSize = 1400
	f := vNewML(conf)
	m := f.m
	f.del = &vDelegateRec{}
	conf.Delegate = f.del
	vUnwind(700)
	f.vAddSelf(3, nil)
	f.vAddConcreteAlive(vPeerA, 2).PMax = 2 // no CRC header, so that packets can be unpacked directly
	k := []int{1, 254, 255, 300, 511, 600}[vPick(6)]
	if k > 300 {
		conf.UDPBufferSize = 4096 // jumbo frames: room for more than two full compound messages
	}
	for i := 0; i < k; i++ {
		f.del.bcast = append(f.del.bcast, nil) // empty user messages: 1 framed byte + 2 bytes overhead each
	}
	to := Address{Addr: "10.0.0.2:7946", Name: vPeerA}
	viaGossip := vPick(2) == 1
	first := []byte{byte(userMsg), vU8(), vU8()}
	if viaGossip {
		m.gossip()
	} else {
		vAssert(m.sendMsg(to, first) == nil, "c11.count.send-ok")
	}
	// receiver side: unpack every packet with the real decoder
	var got [][]byte
	for _, pkt := range f.tr.packets {
		if len(pkt) > 0 && pkt[0] == byte(compoundMsg) {
			trunc, parts, err := decodeCompoundMessage(pkt[1:])
			vAssert(err == nil && trunc == 0, "c11.count.decodes")
			got = append(got, parts...)
		} else {
			got = append(got, pkt)
		}
	}
	want := f.del.bcastReturned
	if !viaGossip {
		want++
	}
	vAssert(len(got) == want, "c11.count.receiver-sees-every-message")
	if !viaGossip && len(got) > 0 {
		vAssert(vEqBytes(got[0], first), "c11.count.first-message-intact")
	}
	vCover("c11.count")
}

// C11: makeCompoundMessages splits any number of messages into compound messages that together decode to exactly
// the same messages in the same order.
func H_C11_Chunking() {
	vUnwind(1600)
	n := []int{0, 1, 255, 256, 510, 511, 700}[vPick(7)]
	msgs := make([][]byte, n)
	for i := range msgs {
		msgs[i] = []byte{byte(i), byte(i >> 8)}
	}
	// a few symbolic payloads so that content fidelity is decided too
	if n > 0 {
		msgs[0] = vBytes(2)
		msgs[n-1] = vBytes(3)
	}
	bufs := makeCompoundMessages(msgs)
	var got [][]byte
	for _, b := range bufs {
		raw := b.Bytes()
		vAssert(raw[0] == byte(compoundMsg), "c11.chunk.type")
		trunc, parts, err := decodeCompoundMessage(raw[1:])
		vAssert(err == nil && trunc == 0, "c11.chunk.decodes")
		vAssert(len(parts) <= 255, "c11.chunk.at-most-255")
		got = append(got, parts...)
	}
	vAssert(len(got) == n, "c11.chunk.count")
	for i := 0; i < n && i < len(got); i++ {
		vAssert(vEqBytes(got[i], msgs[i]), "c11.chunk.content-and-order")
	}
	vCover("c11.chunk")
}

// vFillDelegate hands out, once, a single user broadcast that fills the offered budget to the byte. Its content is
// k bytes of noise followed by zeros: natively k decides how well LZW does on it.
type vFillDelegate struct {
	vDelegateRec
	k    int
	used bool
	size int
}

func (d *vFillDelegate) GetBroadcasts(overhead, limit int) [][]byte {
	n := limit - overhead
	if d.used || n <= 0 {
		return nil
	}
	d.used = true
	d.size = n
	b := make([]byte, n)
	k := d.k
	if k > n {
		k = n
	}
	copy(b, vNoise(k))
	return [][]byte{b}
}

// C11 budget with compression on: a packet filled to the byte stays within the configured size whatever LZW makes
// of its payload - much smaller, smaller by less than the compress{} wrapper costs, no smaller at all. (Compression
// may only ever be used when the wrapped result is smaller than the plain message.) Engine: size-aware compression
// model; natively the payload's compressibility is swept.
func H_C11_CompressedBudget() {
	vOpt("lzw-sizes", 1)
	vUnwind(20000)
	c := &vNetCfg{enc: vPick(3), crc: vPick(2) == 1, compress: true}
	c.label = string(vBytes([]int{0, 3}[vPick(2)]))
	if c.enc != 0 {
		c.key = vBytes(16)
	}
	conf := vBaseConfig()
	c.apply(conf)
	conf.UDPBufferSize = 700
	conf.GossipNodes = 1
	f := vNewML(conf)
	m := f.m
	d := &vFillDelegate{k: vKnob(0, 700)}
	conf.Delegate = d
	f.vAddSelf(3, nil)
	peer := f.vAddConcreteAlive(vPeerA, 2)
	if c.crc {
		peer.PMax = 5
	} else {
		peer.PMax = 2
	}
	m.gossip()
	vAssert(len(f.tr.packets) == 1, "c11.cbudget.sent")
	for _, pkt := range f.tr.packets {
		vAssert(len(pkt) <= conf.UDPBufferSize, "c11.cbudget.packet-fits-udp-buffer")
	}
	vCover("c11.cbudget")
}

func init() { vRegister("H_C11_CompressedBudget", H_C11_CompressedBudget) }
