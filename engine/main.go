package main

import (
	"encoding/json"
	"flag"
	"fmt"
	"go/types"
	"os"
	"path/filepath"
	"strings"
	"time"

	"golang.org/x/tools/go/packages"
	"golang.org/x/tools/go/ssa"
	"golang.org/x/tools/go/ssa/ssautil"
)

func main() {
	repo := flag.String("repo", "/repo", "repository root")
	harness := flag.String("harness", "", "comma-separated harness files injected as /repo/zz_verif_<name>")
	entries := flag.String("entries", "", "comma-separated harness entry functions")
	workers := flag.Int("workers", 8, "parallel path workers")
	solver := flag.String("solver", "z3", "z3 | z3-new | cvc5")
	timeout := flag.Int("timeout", 60000, "per-query solver timeout (ms)")
	unwind := flag.Int("unwind", 300, "loop unwinding bound (block visits per frame)")
	maxPaths := flag.Int("maxpaths", 200000, "path bound")
	maxSteps := flag.Int64("maxsteps", 3000000, "SSA step bound per path")
	budget := flag.Int("budget", 0, "wall-clock budget per entry in seconds (0 = none)")
	tier := flag.Int("tier", 0, "0 quick / 1 thorough (read by harnesses through vTier)")
	noMerge := flag.Bool("nomerge", false, "disable if-conversion of pure diamonds")
	sendSites := flag.Bool("sendsites", false, "list every call site that writes to a transport or stream and exit")
	out := flag.String("out", "", "result JSON file")
	dump := flag.String("dump", "", "dump SSA of function and exit")
	flag.Parse()

	os.Setenv("PATH", "/opt/veriftools/go1.26.8/bin:"+os.Getenv("PATH"))
	os.Setenv("GOTOOLCHAIN", "local")
	os.Setenv("GOFLAGS", "-mod=mod")
	os.Setenv("GOPROXY", "off")
	os.Setenv("GOSUMDB", "off")
	t0 := time.Now()
	overlay := map[string][]byte{}
	for _, h := range strings.Split(*harness, ",") {
		if h == "" {
			continue
		}
		b, err := os.ReadFile(h)
		if err != nil {
			fatal(err)
		}
		overlay[filepath.Join(*repo, "zz_verif_"+filepath.Base(h))] = b
	}
	cfg := &packages.Config{Mode: packages.LoadAllSyntax, Dir: *repo, Overlay: overlay,
		Env: append(os.Environ(), "PATH=/opt/veriftools/go1.26.8/bin:"+os.Getenv("PATH"), "GOTOOLCHAIN=local", "GOFLAGS=-mod=mod", "GOPROXY=off", "GOSUMDB=off")}
	pkgs, err := packages.Load(cfg, ".")
	if err != nil {
		fatal(err)
	}
	if packages.PrintErrors(pkgs) > 0 {
		fmt.Println("LOADERROR")
		os.Exit(3)
	}
	prog, spkgs := ssautil.AllPackages(pkgs, ssa.InstantiateGenerics)
	prog.Build()
	mainPkg := spkgs[0]
	fmt.Fprintf(os.Stderr, "loaded %s in %.1fs\n", mainPkg.Pkg.Path(), time.Since(t0).Seconds())

	if *sendSites {
		listSendSites(prog, mainPkg)
		return
	}
	if *dump != "" {
		fn := mainPkg.Func(*dump)
		if fn == nil {
			fatal(fmt.Errorf("no func %s", *dump))
		}
		fn.WriteTo(os.Stdout)
		for _, a := range fn.AnonFuncs {
			a.WriteTo(os.Stdout)
		}
		return
	}

	var errStrPtr, timeType types.Type
	for _, sp := range prog.AllPackages() {
		switch sp.Pkg.Path() {
		case "errors":
			errStrPtr = types.NewPointer(sp.Pkg.Scope().Lookup("errorString").Type())
		case "time":
			timeType = sp.Pkg.Scope().Lookup("Time").Type()
		}
	}
	var results []*Result
	for _, e := range strings.Split(*entries, ",") {
		fn := mainPkg.Func(e)
		if fn == nil {
			fatal(fmt.Errorf("entry %s not found", e))
		}
		ex := &Explorer{prog: prog, mainPkg: mainPkg, entry: e, entryFn: fn, errorStringPtr: errStrPtr, timeType: timeType,
			maxSteps: *maxSteps, maxDepth: 200, maxThreads: 8, maxAlloc: 1 << 18, maxConcretize: 300, defaultUnwind: *unwind,
			tier: *tier, noMerge: *noMerge, sizes: types.SizesFor("gc", "amd64"), maxPaths: *maxPaths, solverKind: *solver, solverTimeout: *timeout,
			initPkgs: map[string]bool{"io": true, "bufio": true, "bytes": true, "errors": true, "encoding/binary": true, mlPkg: true, "github.com/google/btree": true, "hash/crc32": false, "net": false}}
		if *budget > 0 {
			ex.deadline = time.Now().Add(time.Duration(*budget) * time.Second)
		}
		r := ex.Run(*workers)
		results = append(results, r)
		fmt.Fprintf(os.Stderr, "%s: paths=%d done=%d infeasible=%d branches=%d obligations=%d (solver %d) queries=%d solver=%.1fs wall=%.1fs violations=%d inconclusive=%d\n",
			e, r.Paths, r.PathsDone, r.Infeasible, r.Branches, r.Obligations, r.OblSolver, r.Queries, r.SolverTimeS, r.WallS, len(r.Violations), len(r.Inconclusive))
	}
	b, _ := json.MarshalIndent(results, "", " ")
	if *out != "" {
		if err := os.WriteFile(*out, b, 0o644); err != nil {
			fatal(err)
		}
	} else {
		os.Stdout.Write(b)
	}
}

func fatal(err error) {
	fmt.Fprintln(os.Stderr, "fatal:", err)
	os.Exit(3)
}
