package memberlist

import "time"

func init() {
	vRegister("H_C07_DelegateWindow_RT", H_C07_DelegateWindow_RT)
	vRegister("H_C07_Step", H_C07_Step)
	vRegister("H_C07_TimerReset", H_C07_TimerReset)
}

func vIsMemberState(present bool, s NodeStateType) bool {
	return vAnd(present, vAnd(s != StateDead, s != StateLeft))
}

// C07: per step, the delivered events are exactly the difference of Members() before/after.
func H_C07_Step() {
	conf := vBaseConfig()
	conf.DeadNodeReclaimTime = time.Duration(vRange(0, 1<<44))
	f := vNewML(conf)
	m := f.m
	f.vAddSelf(vU32(), vBytes(1))
	f.vAddConcreteAlive(vPeerB, 3)
	if vPick(2) == 1 {
		f.vAddNode(vPeerA, vMetaLen())
	}
	c := vArbClaim(vPeerA)
	pre := f.vSnapshot(vPeerA)
	preN := m.NumMembers()

	f.vDeliver(vPeerA, c)

	post := f.vSnapshot(vPeerA)
	memPre := vIsMemberState(pre.present, pre.state)
	memPost := vIsMemberState(post.present, post.state)
	log := f.ev.log
	vAssert(len(log) <= 1, "c07.at-most-one-event")
	for _, e := range log {
		vAssert(e.name == vPeerA, "c07.event-names-target")
	}
	if !memPre && memPost {
		vAssert(len(log) == 1 && log[0].kind == 1, "c07.join-event")
		if len(log) == 1 {
			vAssert(vEqBytes(log[0].meta, post.meta), "c07.join-carries-meta")
			vAssert(vEqBytes(log[0].addr, post.addr), "c07.join-carries-addr")
		}
		vAssert(m.NumMembers() == preN+1, "c07.join-count")
		vCover("c07.join")
	} else if memPre && !memPost {
		vAssert(len(log) == 1 && log[0].kind == 2, "c07.leave-event")
		vAssert(m.NumMembers() == preN-1, "c07.leave-count")
		vCover("c07.leave")
	} else if memPre && memPost && !vEqBytes(pre.meta, post.meta) {
		vAssert(len(log) == 1 && log[0].kind == 3, "c07.update-event")
		if len(log) == 1 {
			vAssert(vEqBytes(log[0].meta, post.meta), "c07.update-carries-meta")
		}
		vAssert(m.NumMembers() == preN, "c07.update-count")
		vCover("c07.update")
	} else {
		vAssert(len(log) == 0, "c07.no-spurious-event")
		vAssert(m.NumMembers() == preN, "c07.quiet-count")
		vCover("c07.quiet")
	}
	vAssert(f.vIsMember(vPeerA) == memPost, "c07.members-agrees")
	vAssert(f.ev.unlocked == 0, "c07.callbacks-under-node-lock")
}

// C07: suspicion, timer expiry (fresh and stale) and reaping emit exactly the right events.
func H_C07_TimerReset() {
	conf := vBaseConfig()
	conf.GossipToTheDeadTime = time.Duration(vRange(0, 1<<40))
	f := vNewML(conf)
	m := f.m
	f.vAddSelf(1, nil)
	f.vAddConcreteAlive(vPeerB, 3)
	a := f.vAddConcreteAlive(vPeerA, 2)
	a.Incarnation = vU32()
	from := []string{vSelf, vPeerB}[vPick(2)]
	m.suspectNode(&suspect{Incarnation: a.Incarnation, Node: vPeerA, From: from})
	vAssert(len(f.ev.log) == 0, "c07.suspect-emits-nothing")
	vAssert(f.vIsMember(vPeerA), "c07.suspect-still-member")
	t := m.nodeTimers[vPeerA]
	vAssert(t != nil, "c07.suspect-has-timer")
	if t == nil {
		return
	}
	t.timeoutFn()
	vAssert(len(f.ev.log) == 1 && f.ev.log[0].kind == 2 && f.ev.log[0].name == vPeerA, "c07.timeout-leave-once")
	vAssert(!f.vIsMember(vPeerA), "c07.timeout-not-member")
	t.timeoutFn() // stale second firing
	vAssert(len(f.ev.log) == 1, "c07.stale-timeout-silent")
	preN := m.NumMembers()
	vAdvance(time.Duration(vRange(0, 1<<41)))
	m.resetNodes()
	vAssert(len(f.ev.log) == 1, "c07.reset-emits-nothing")
	vAssert(m.NumMembers() == preN, "c07.reset-keeps-members")
	vAssert(f.vIsMember(vSelf) && f.vIsMember(vPeerB), "c07.reset-keeps-live")
	vAssert(f.ev.unlocked == 0, "c07.timer-callbacks-under-node-lock")
	vCover("c07.timer-reset")
}

func init() {
	vRegister("H_C07_Sequence", H_C07_Sequence)
}

// C07 over short histories: after every step the set obtained by replaying the delivered join/leave events is
// exactly Members(); no member joins twice without leaving, none leaves without having joined. Steps: claims
// about a peer and about ourselves (gossip or push/pull), a concurrent Leave raising its flag, Leave itself,
// suspicion timers expiring, reaping, a self-announcement.
func H_C07_Sequence() {
	conf := vBaseConfig()
	conf.GossipToTheDeadTime = 5 * time.Second
	f := vNewML(conf)
	m := f.m
	me := f.vAddSelf(5, []byte{1})
	f.vAddConcreteAlive(vPeerB, 3)
	replay := map[string]bool{vSelf: true, vPeerB: true}
	if vPick(2) == 1 {
		f.vAddConcreteAlive(vPeerA, 2).Incarnation = 5
		replay[vPeerA] = true
	}
	if vPick(2) == 1 {
		m.leave.Store(1) // the history may begin inside a Leave call that has just raised its flag
	}
	seen := 0
	// quick: every 2-step history over the full step alphabet; thorough: those, plus every 3-step history over a
	// reduced alphabet (incarnations just below / at / above the record's, gossip carrier only)
	steps, reduced := 2, false
	if vTier() == 1 && vPick(2) == 1 {
		steps, reduced = 3, true
	}
	for i := 0; i < steps; i++ {
		op := vPick(8)
		switch op {
		case 0, 1:
			target := []string{vPeerA, vSelf}[op]
			var inc uint32
			if reduced {
				inc = uint32(5 + vPick(2))
			} else {
				inc = uint32(4 + vPick(4))
			}
			kind := vPick(3)
			c := &vClaim{kind: kind, inc: inc, from: []string{vPeerB, target}[vPick(2)]}
			if !reduced {
				c.merge = vPick(2) == 1
			}
			if kind == 0 {
				c.addr, c.port = []byte{10, 0, 0, 2}, 7946
				if target == vSelf {
					c.addr = []byte{10, 0, 0, 1}
				}
				c.meta = [][]byte{nil, {9}}[vPick(2)]
				c.vsn = []uint8{1, 5, 2, 0, 0, 0}
				c.mstate = StateAlive
			} else if kind == 1 {
				c.mstate = StateSuspect
			} else {
				c.mstate = StateDead
				if c.from == target {
					c.mstate = StateLeft
				}
			}
			f.vDeliver(target, c)
		case 2:
			m.leave.Store(1) // a concurrent Leave has raised its flag
		case 3:
			_ = m.Leave(10 * time.Millisecond)
		case 4:
			vAdvance(40 * time.Second) // every pending suspicion timer expires
		case 5:
			vAdvance(6 * time.Second)
			m.resetNodes()
		case 6:
			if !m.hasLeft() {
				a := alive{Incarnation: m.nextIncarnation(), Node: vSelf, Addr: me.Addr, Port: me.Port, Meta: []byte{byte(2 + i)}, Vsn: conf.BuildVsnArray()}
				m.aliveNode(&a, nil, true)
			}
		case 7:
			// a new member shows up by push/pull
			m.mergeState([]pushNodeState{{Name: vPeerA, Addr: []byte{10, 0, 0, 2}, Port: 7946, Incarnation: 8, State: StateAlive, Vsn: []uint8{1, 5, 2, 0, 0, 0}}})
		}
		for ; seen < len(f.ev.log); seen++ {
			e := f.ev.log[seen]
			switch e.kind {
			case 1:
				vAssert(!replay[e.name], "c07.seq.no-join-without-intervening-leave")
				replay[e.name] = true
			case 2:
				vAssert(replay[e.name], "c07.seq.no-leave-without-join")
				replay[e.name] = false
			case 3:
				vAssert(replay[e.name], "c07.seq.update-only-for-members")
			}
		}
		for _, name := range []string{vSelf, vPeerA, vPeerB} {
			vAssert(replay[name] == f.vIsMember(name), "c07.seq.event-log-equals-members")
		}
		vAssert(f.ev.unlocked == 0, "c07.seq.callbacks-under-node-lock")
	}
	vCover("c07.seq")
}

// C07 under concurrency: while the alive delegate is still vetting a claim about X (the delegate is slow), a
// second first-contact claim about X, or a reaping pass that would remove X's long-dead record, is waiting on
// another goroutine. Whatever the order in which the two finish, the event log and the table agree: X is
// listed at most once, joined at most once without a leave in between, and every record in the node list is
// the one the name index points at. (Real time: goroutines parked on the node lock cannot be replayed under
// synctest.)
func H_C07_DelegateWindow_RT() {
	conf := vBaseConfig()
	conf.GossipToTheDeadTime = time.Second
	f := vNewML(conf)
	m := f.m
	f.alive = &vAliveRec{}
	conf.Alive = f.alive
	f.vAddSelf(5, nil)
	scenario := vPick(2)
	if scenario == 1 {
		d := f.vAddConcreteAlive(vPeerA, 2) // last change an hour ago: reapable
		d.State = StateDead
		d.Incarnation = 3
	}
	release := make(chan struct{})
	f.alive.onNotify = func() { <-release } // the delegate is slow: it returns only when the harness lets it
	done := 0
	a1 := alive{Incarnation: 7, Node: vPeerA, Addr: []byte{10, 0, 0, 2}, Port: 7946, Vsn: []uint8{1, 5, 2, 0, 0, 0}}
	a2 := alive{Incarnation: 7 + uint32(vPick(2)), Node: vPeerA, Addr: []byte{10, 0, 0, 2}, Port: 7946, Vsn: []uint8{1, 5, 2, 0, 0, 0}}
	go func() { m.aliveNode(&a1, nil, false); done++ }()
	vYield() // the first claim is now inside the delegate
	go func() {
		if scenario == 0 {
			m.aliveNode(&a2, nil, false)
		} else {
			m.resetNodes()
		}
		done++
	}()
	vYield() // the second goroutine has run as far as it can
	close(release)
	for i := 0; i < 6 && done < 2; i++ {
		vYield()
	}
	vAssert(done == 2, "c07.window.both-finish")
	listed := 0
	for _, n := range m.nodes {
		vAssert(m.nodeMap[n.Name] == n, "c07.window.node-list-matches-index")
		if n.Name == vPeerA {
			listed++
		}
	}
	vAssert(listed <= 1 && len(m.nodes) == len(m.nodeMap), "c07.window.listed-at-most-once")
	joins, leaves := 0, 0
	for _, e := range f.ev.log {
		if e.name == vPeerA && e.kind == 1 {
			joins++
			vAssert(joins-leaves == 1, "c07.window.no-join-without-intervening-leave")
		}
		if e.name == vPeerA && e.kind == 2 {
			leaves++
		}
	}
	vAssert((joins-leaves == 1) == f.vIsMember(vPeerA), "c07.window.event-log-equals-members")
	vCover("c07.window")
}
