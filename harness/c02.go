package memberlist

func init() {
	vRegister("H_C02_Refute", H_C02_Refute)
	vRegister("H_C02_SelfAnnounce", H_C02_SelfAnnounce)
	vRegister("H_C02_Startup", H_C02_Startup)
}

// vQueuedFor returns the broadcast currently queued under name (nil if none).
func (f *vFix) vQueuedFor(name string) *memberlistBroadcast {
	q := f.m.broadcasts
	if q.tm == nil {
		return nil
	}
	lb, ok := q.tm[name]
	if !ok {
		return nil
	}
	mb, _ := lb.b.(*memberlistBroadcast)
	return mb
}

// vQueuedAliveAbout returns a queued alive broadcast whose decoded subject is name (nil if none).
func (f *vFix) vQueuedAliveAbout(name string) *memberlistBroadcast {
	q := f.m.broadcasts
	for _, lb := range q.tm {
		mb, ok := lb.b.(*memberlistBroadcast)
		if !ok || len(mb.msg) == 0 || mb.msg[0] != byte(aliveMsg) {
			continue
		}
		var a alive
		if decode(mb.msg[1:], &a) == nil && a.Node == name {
			return mb
		}
	}
	return nil
}

// C02: a running node that has not left answers every accusation with a strictly newer alive.
func H_C02_Refute() {
	conf := vBaseConfig()
	f := vNewML(conf)
	m := f.m
	selfInc := vU32()
	gap := uint32(vRange(0, 2))
	vAssume(selfInc < 0xFFFFFFF0)
	me := f.vAddSelf(selfInc, vBytes(vPick(2)))
	m.incarnation.Store(selfInc + gap) // the counter may run ahead of the record (UpdateNode in flight)
	if vPick(2) == 1 {
		// the accuser may be somebody we hold as alive, suspect, dead or departed ourselves (two nodes that have
		// buried each other across a partition): its accusation is refuted all the same
		by := f.vAddConcreteAlive(vPeerA, 2)
		by.State = NodeStateType(vPick(4))
		if by.State == StateSuspect {
			f.vAddSuspicion(vPeerA, by)
		}
	}
	preScore := vRange(0, 7)
	m.awareness.score = preScore
	c := vArbClaim(vSelf)
	vAssume(c.inc != 0xFFFFFFFF)
	if c.kind == 0 {
		// alive claims that name our own address (the conflict branch is C08's subject)
		c.addr = []byte{10, 0, 0, 1}
		c.port = 7946
	}
	preMeta := append([]byte(nil), me.Meta...)
	versions := []byte{me.PMin, me.PMax, me.PCur, me.DMin, me.DMax, me.DCur}

	f.vDeliver(vSelf, c)

	vAssert(me.State == StateAlive, "c02.self-stays-alive")
	vAssert(f.vIsMember(vSelf), "c02.self-listed")
	vAssert(m.nodeMap[vSelf] == me, "c02.self-record-kept")

	vsnBad := false
	if len(c.vsn) >= 3 {
		vsnBad = vOr(vOr(c.vsn[0] == 0, c.vsn[1] == 0), c.vsn[0] > c.vsn[1])
	}
	var need bool
	if c.kind == 0 {
		differs := vOr(!vEqBytes(c.meta, preMeta), !vEqBytes(c.vsn, versions))
		need = vAnd(!vsnBad, vOr(c.inc > selfInc, vAnd(c.inc == selfInc, differs)))
	} else {
		need = c.inc >= selfInc
	}
	if need {
		vAssert(me.Incarnation > c.inc, "c02.refute.beats-accusation")
		vAssert(me.Incarnation > selfInc, "c02.refute.moves-forward")
		vAssert(m.incarnation.Load() == me.Incarnation, "c02.refute.counter-matches")
		// (refute() happens to queue its alive under the node's address string rather than its name; the oracle
		// only requires that some queued alive message names us, whatever key it is filed under)
		mb := f.vQueuedAliveAbout(vSelf)
		vAssert(mb != nil, "c02.refute.alive-queued")
		if mb != nil {
			vAssert(mb.msg[0] == byte(aliveMsg), "c02.refute.is-alive-msg")
			var a alive
			err := decode(mb.msg[1:], &a)
			vAssert(err == nil, "c02.refute.decodes")
			vAssert(a.Incarnation == me.Incarnation, "c02.refute.carries-new-inc")
			vAssert(a.Node == vSelf, "c02.refute.names-self")
		}
		want := preScore + 1
		if want > 7 {
			want = 7
		}
		vAssert(m.GetHealthScore() == want, "c02.refute.score")
		vCover("c02.refuted")
	} else {
		vAssert(me.Incarnation == selfInc, "c02.norefute.inc-unchanged")
		vAssert(m.GetHealthScore() == preScore, "c02.norefute.score")
		vCover("c02.ignored")
	}
}

// C02 second half: every self-announcement (setAlive/UpdateNode core) bumps the incarnation and is accepted.
func H_C02_SelfAnnounce() {
	conf := vBaseConfig()
	f := vNewML(conf)
	m := f.m
	selfInc := vU32()
	vAssume(selfInc < 0xFFFFFFF0)
	me := f.vAddSelf(selfInc, vBytes(vPick(2)))
	newMeta := vBytes(vPick(2))
	a := alive{Incarnation: m.nextIncarnation(), Node: vSelf, Addr: me.Addr, Port: me.Port, Meta: newMeta, Vsn: conf.BuildVsnArray()}
	preMeta := append([]byte(nil), me.Meta...)
	m.aliveNode(&a, nil, true)
	vAssert(me.Incarnation == selfInc+1, "c02.announce.inc")
	vAssert(vEqBytes(me.Meta, newMeta), "c02.announce.meta")
	vAssert(me.State == StateAlive, "c02.announce.alive")
	mb := f.vQueuedFor(vSelf)
	vAssert(mb != nil, "c02.announce.queued")
	if !vEqBytes(preMeta, newMeta) {
		vAssert(len(f.ev.log) == 1 && f.ev.log[0].kind == 3, "c02.announce.update-event")
	} else {
		vAssert(len(f.ev.log) == 0, "c02.announce.no-event")
	}
	vCover("c02.announce")
}

// C02 at start-up: Create starts the listeners (newMemberlist) before it announces the node (setAlive), so claims -
// about the node's own name, e.g. left over from before a restart at another address, or about peers - can be
// handled while the table holds no record of the local node yet. Whatever arrives in that window, once setAlive
// has run the node lists itself alive at its own advertised address and has an announcement of exactly that
// queued; and it has not vouched for an address it does not have.
func H_C02_Startup() {
	conf := vBaseConfig()
	f := vNewML(conf)
	m := f.m
	f.del = &vDelegateRec{meta: vBytes(vPick(2))}
	conf.Delegate = f.del
	k := vPick(2) // claims handled in the window: 0..1 (two arbitrary claims exceed 200 000 paths)
	for i := 0; i < k; i++ {
		target := []string{vSelf, vPeerA}[vPick(2)]
		c := vArbClaim(target)
		vAssume(c.inc < 0xFFFFFFF0)
		f.vDeliver(target, c)
	}
	if vSymbolic() {
		// setAlive's core (its sockaddr classification of the advertise address only feeds a log line)
		addr, port, _ := m.refreshAdvertise()
		a := alive{Incarnation: m.nextIncarnation(), Node: conf.Name, Addr: addr, Port: uint16(port), Meta: f.del.NodeMeta(MetaMaxSize), Vsn: conf.BuildVsnArray()}
		m.aliveNode(&a, nil, true)
	} else {
		vAssert(m.setAlive() == nil, "c02.startup.setalive-ok")
	}
	me := m.nodeMap[vSelf]
	vAssert(me != nil, "c02.startup.self-recorded")
	if me == nil {
		return
	}
	vAssert(me.State == StateAlive, "c02.startup.self-alive")
	vAssert(f.vIsMember(vSelf), "c02.startup.self-listed")
	vAssert(vAnd(vEqBytes(me.Addr, []byte{10, 0, 0, 1}), me.Port == 7946), "c02.startup.own-address")
	vAssert(vEqBytes(me.Meta, f.del.meta), "c02.startup.own-metadata")
	vAssert(me.Incarnation == m.incarnation.Load(), "c02.startup.counter-matches")
	ln := m.LocalNode()
	vAssert(vAnd(ln != nil, ln.Name == vSelf), "c02.startup.localnode")
	// the newest alive about ourselves that is waiting to be gossiped is our own announcement: our address, our
	// current incarnation (an older one, queued while refuting hearsay in the window, is superseded on every peer)
	n := 0
	var newest alive
	for _, lb := range m.broadcasts.tm {
		mb, ok := lb.b.(*memberlistBroadcast)
		if !ok || len(mb.msg) == 0 || mb.msg[0] != byte(aliveMsg) {
			continue
		}
		var a alive
		if decode(mb.msg[1:], &a) == nil && a.Node == vSelf {
			if n == 0 || a.Incarnation > newest.Incarnation {
				newest = a
			}
			n++
		}
	}
	if n >= 1 {
		vAssert(vAnd(vEqBytes(newest.Addr, []byte{10, 0, 0, 1}), newest.Port == 7946), "c02.startup.announces-own-address")
		vAssert(newest.Incarnation == me.Incarnation, "c02.startup.announces-current-incarnation")
	}
	vAssert(n >= 1, "c02.startup.announcement-queued")
	vCover("c02.startup")
}
