package main

// Token model of go-msgpack: Encode(x) yields a fresh byte string registered as
// "encodes a copy of x"; Decode of registered bytes returns that copy; Decode of
// anything else (hostile input) returns an error or an arbitrary value of the
// target type. Contract assumed: go-msgpack round-trips memberlist's wire structs
// and never panics on garbage.

import (
	"fmt"
	"os"
	"go/token"
	"go/types"

	"golang.org/x/tools/go/ssa"
)

const codecPkg = "github.com/hashicorp/go-msgpack/v2/codec"

type encTokenRec struct {
	bytes []*Term
	typ   types.Type
	val   Value
}

func (p *Path) newToken(typ types.Type, val Value) []*Term {
	n := p.encLen
	if n <= 0 {
		n = 3
	}
	if p.lzwSizes {
		// size-aware model: the encoding of a compress{Algo, Buf} wrapper is as long as its payload plus the
		// msgpack framing (map header, two field names, one byte, bin header: 14..15 bytes)
		if nt, ok := typ.(*types.Named); ok && nt.Obj().Name() == "compress" {
			if sv, ok := val.(StructVal); ok && len(sv) == 2 {
				if b, ok := sv[1].(SliceVal); ok {
					n = b.N + 15
				}
			}
		}
	}
	p.tokSeq++
	ts := make([]*Term, n)
	for i := range ts {
		ts[i] = Var(fmt.Sprintf("tok%d_%d", p.tokSeq, i), 8)
	}
	p.toks = append(p.toks, &encTokenRec{bytes: ts, typ: typ, val: deepCopy(val)})
	p.note("stub: go-msgpack Encode/Decode = token model (fresh bytes registered as encoding a copy of the value; unregistered bytes decode to error-or-arbitrary)")
	return ts
}

// deepCopy copies aggregates and slice backing arrays (snapshot at encode time).
func deepCopy(v Value) Value {
	switch x := v.(type) {
	case StructVal:
		c := make(StructVal, len(x))
		for i, f := range x {
			c[i] = deepCopy(f)
		}
		return c
	case ArrayVal:
		c := make(ArrayVal, len(x))
		for i, f := range x {
			c[i] = deepCopy(f)
		}
		return c
	case SliceVal:
		if x.Nil {
			return x
		}
		nb := make([]Value, x.N)
		for i := 0; i < x.N; i++ {
			nb[i] = deepCopy(x.Back[i])
		}
		return SliceVal{Back: nb, N: x.N}
	}
	return v
}

func (p *Path) findToken(ts []*Term) *encTokenRec {
	for _, tk := range p.toks {
		if len(tk.bytes) > len(ts) {
			continue
		}
		ok := true
		for i := range tk.bytes {
			if tk.bytes[i] != ts[i] {
				ok = false
				break
			}
		}
		if ok {
			return tk
		}
	}
	return nil
}

// arbitrary returns an unconstrained value of type t. Integers and booleans are free symbolic
// values; strings and byte strings follow one of three shapes chosen once per decoded value:
//   shape 0: "" / nil      shape 1: the local node's name "n0" / 4 free bytes      shape 2: "n1" / 6 free bytes
//   shape 3: "n1" / 5 free bytes      shape 4: "n2" / 16 free bytes
func (p *Path) arbitrary(t types.Type, depth int) Value {
	return p.arbShape(t, p.choose(5))
}

func (p *Path) arbShape(t types.Type, shape int) Value {
	switch u := t.Underlying().(type) {
	case *types.Basic:
		if w, _, ok := intInfo(t); ok {
			if w == 0 {
				return p.havoc("decode-arbitrary", 0)
			}
			return p.havoc("decode-arbitrary", w)
		}
		if u.Info()&types.IsString != 0 {
			return mkStr([]string{"", "n0", "n1", "n1", "n2"}[shape])
		}
		if u.Info()&types.IsFloat != 0 {
			return FloatVal{Sym: true}
		}
	case *types.Struct:
		s := make(StructVal, u.NumFields())
		for i := range s {
			s[i] = p.arbShape(u.Field(i).Type(), shape)
		}
		return s
	case *types.Slice:
		if b, ok := u.Elem().Underlying().(*types.Basic); ok && b.Kind() == types.Uint8 {
			n := []int{0, 4, 6, 5, 16}[shape]
			if n == 0 {
				return SliceVal{Nil: true}
			}
			ts := make([]*Term, n)
			for i := range ts {
				ts[i] = p.havoc("decode-arbitrary", 8)
			}
			return mkByteSlice(ts)
		}
		return SliceVal{Nil: true}
	}
	return zero(t)
}

func (p *Path) decodeInto(ts []*Term, out Value, fr *frame, pos token.Pos) (consumed int, err Value) {
	iv := out.(IfaceVal)
	ptr, ok := iv.V.(*Value)
	if !ok || ptr == nil {
		return 0, p.opaqueErr("decode: non-pointer target")
	}
	pt, _ := iv.T.Underlying().(*types.Pointer)
	if pt == nil {
		return 0, p.opaqueErr("decode: non-pointer target")
	}
	if tk := p.findToken(ts); tk != nil && types.Identical(tk.typ, pt.Elem()) {
		storeInto(ptr, deepCopy(tk.val))
		return len(tk.bytes), IfaceVal{}
	}
	// hostile / foreign bytes
	if os.Getenv("SYMGO_TRACE") != "" {
		fmt.Fprintf(os.Stderr, "TRACE decode miss: target=%v nbytes=%d first=%v tokens=%d at %s\n", pt.Elem(), len(ts), ts[0], len(p.toks), p.posStr(pos))
	}
	if !p.decodeArbOff && p.choose(2) == 1 {
		p.hostile("decode")
		storeInto(ptr, p.arbitrary(pt.Elem(), 0))
		p.cover("engine.decode.arbitrary")
		// an arbitrary decode may consume any prefix; model: everything offered
		return len(ts), IfaceVal{}
	}
	return 0, p.opaqueErr("decode: malformed msgpack")
}

func (p *Path) newBytesBuffer(th *thread, fr *frame, pos token.Pos, content []*Term) *Value {
	nb := p.ex.lookupFunc("bytes", "NewBuffer")
	buf := p.callSSA(th, fr, pos, nb, []Value{mkByteSlice(content)}, nil).(*Value)
	return buf
}

func (ex *Explorer) lookupFunc(pkg, name string) *ssa.Function {
	for _, sp := range ex.prog.AllPackages() {
		if sp.Pkg.Path() == pkg {
			if f := sp.Func(name); f != nil {
				return f
			}
		}
	}
	panic("lookupFunc: " + pkg + "." + name)
}

func (p *Path) ifaceCall(th *thread, fr *frame, pos token.Pos, iv IfaceVal, method string, args ...Value) Value {
	if iv.T == nil {
		p.obligation(tFalse, "nil", "nilinvoke@"+fnName(fr), "method "+method+" on nil interface", fr, pos)
	}
	if mc := markerMethod(iv.T, method); mc != nil {
		return p.callMarker(th, fr, pos, mc, append([]Value{iv.V}, args...))
	}
	m := p.ex.prog.LookupMethod(iv.T, nil, method)
	if m == nil {
		// unexported methods need the package; exported suffices here
		unsup("no method %s on %v", method, iv.T)
	}
	return p.callSSA(th, fr, pos, m, append([]Value{iv.V}, args...), nil)
}

func init() {
	// memberlist.encode(msgType, in, flag) (*bytes.Buffer, error)
	reg(mlPkg+".encode", func(p *Path, th *thread, caller *frame, pos token.Pos, fn *ssa.Function, args []Value) Value {
		in := args[1].(IfaceVal)
		var typ types.Type
		var val Value
		if pt, ok := in.T.Underlying().(*types.Pointer); ok {
			ptr := in.V.(*Value)
			if ptr == nil {
				return TupleVal{(*Value)(nil), p.opaqueErr("encode nil")}
			}
			typ, val = pt.Elem(), *ptr
		} else {
			typ, val = in.T, in.V
		}
		tok := p.newToken(typ, val)
		content := append([]*Term{args[0].(*Term)}, tok...)
		return TupleVal{p.newBytesBuffer(th, caller, pos, content), IfaceVal{}}
	})
	// memberlist.decode(buf, out) error
	reg(mlPkg+".decode", func(p *Path, th *thread, caller *frame, pos token.Pos, fn *ssa.Function, args []Value) Value {
		_, err := p.decodeInto(bytesOf(args[0]), args[1], caller, pos)
		return err
	})
	reg(codecPkg+".NewDecoder", func(p *Path, th *thread, caller *frame, pos token.Pos, fn *ssa.Function, args []Value) Value {
		cell := new(Value)
		*cell = StructVal{args[0]}
		return cell
	})
	reg(codecPkg+".NewEncoder", func(p *Path, th *thread, caller *frame, pos token.Pos, fn *ssa.Function, args []Value) Value {
		cell := new(Value)
		*cell = StructVal{args[0]}
		return cell
	})
	reg("(*"+codecPkg+".Encoder).Encode", func(p *Path, th *thread, caller *frame, pos token.Pos, fn *ssa.Function, args []Value) Value {
		w := (*args[0].(*Value)).(StructVal)[0].(IfaceVal)
		in := args[1].(IfaceVal)
		var typ types.Type
		var val Value
		if pt, ok := in.T.Underlying().(*types.Pointer); ok {
			typ, val = pt.Elem(), *(in.V.(*Value))
		} else {
			typ, val = in.T, in.V
		}
		tok := p.newToken(typ, val)
		r := p.ifaceCall(th, caller, pos, w, "Write", mkByteSlice(tok)).(TupleVal)
		return r[1]
	})
	// stream decode: pull bytes one at a time from the reader until a registered token (or garbage) is recognised
	reg("(*"+codecPkg+".Decoder).Decode", func(p *Path, th *thread, caller *frame, pos token.Pos, fn *ssa.Function, args []Value) Value {
		r := (*args[0].(*Value)).(StructVal)[0].(IfaceVal)
		readByte := func() (*Term, bool) {
			one := mkByteSlice([]*Term{BV(8, 0)})
			for tries := 0; tries < 4; tries++ {
				res := p.ifaceCall(th, caller, pos, r, "Read", one).(TupleVal)
				n := res[0].(*Term)
				if n.IsConst() && n.Val == 1 {
					return one.Back[0].(*Term), true
				}
				if e := res[1].(IfaceVal); e.T != nil {
					return nil, false
				}
			}
			return nil, false
		}
		first, ok := readByte()
		if !ok {
			return p.opaqueErr("decode: EOF")
		}
		var tk *encTokenRec
		for _, c := range p.toks {
			if c.bytes[0] == first {
				tk = c
				break
			}
		}
		if tk != nil {
			got := []*Term{first}
			for len(got) < len(tk.bytes) {
				b, ok := readByte()
				if !ok {
					return p.opaqueErr("decode: unexpected EOF")
				}
				got = append(got, b)
			}
			_, err := p.decodeInto(got, args[1], caller, pos)
			return err
		}
		_, err := p.decodeInto([]*Term{first}, args[1], caller, pos)
		return err
	})
	reg("github.com/sean-/seed.Init", noop)
}
