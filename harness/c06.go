package memberlist

import (
	"math"
	"time"
)

func init() {
	vRegister("H_C06_Schedule", H_C06_Schedule)
	vRegister("H_C06_StateLevel", H_C06_StateLevel)
	vRegister("H_C06_Hearsay", H_C06_Hearsay)
}

// documented Lifeguard schedule: max - log(n+1)/log(k+1)*(max-min), millisecond floor, never below min
func vRefTimeout(n, k int, min, max time.Duration) time.Duration {
	frac := math.Log(float64(n)+1.0) / math.Log(float64(k)+1.0)
	raw := max.Seconds() - frac*(max.Seconds()-min.Seconds())
	t := time.Duration(math.Floor(1000.0*raw)) * time.Millisecond
	if t < min {
		t = min
	}
	return t
}

// C06: timer object — exact firing instant against a reference model of the documented schedule,
// counting rules, fires at most once, never before min, never after max.
func H_C06_Schedule() {
	k := vPick(4)
	mm := [][2]time.Duration{{2 * time.Second, 12 * time.Second}, {500 * time.Millisecond, 30 * time.Second}, {time.Second, time.Second}}[vPick(3)]
	min, max := mm[0], mm[1]
	names := []string{"acc", "p1", "p2", "p3"}
	fired, firedN := 0, -1
	s := newSuspicion("acc", k, min, max, func(n int) { fired++; firedN = n })
	start := vNow()
	// reference model
	due := max
	if k < 1 {
		due = min
	}
	pending := true
	mFired := 0
	counted := 0
	seen := [4]bool{true, false, false, false}
	steps := 2 + vTier()
	for i := 0; i < steps; i++ {
		vAdvance(time.Duration(vRange(0, int(40*time.Second))))
		e := vNow().Sub(start)
		if pending && e >= due {
			pending = false
			mFired++
		}
		vAssert(fired == mFired, "c06.sched.fires-exactly-when-due")
		who := vPick(4)
		got := s.Confirm(names[who])
		want := counted < k && !seen[who]
		vAssert(got == want, "c06.sched.confirm-counts-once")
		if want {
			seen[who] = true
			counted++
			if pending {
				t := vRefTimeout(counted, k, min, max)
				vAssert(t >= min && t <= max, "c06.sched.ref-in-bounds")
				vAssert(t <= due, "c06.sched.only-shortens")
				if t > e {
					due = t
				} else {
					pending = false
					mFired++
				}
			}
		}
		vYield()
		vAssert(fired == mFired, "c06.sched.fires-after-confirm")
		vAssert(int(s.n.Load()) == counted, "c06.sched.n")
		vAssert(counted <= k, "c06.sched.n-le-k")
		if fired > 0 {
			vAssert(e >= min, "c06.sched.never-before-min")
		}
	}
	vAdvance(max)
	vAssert(fired == 1, "c06.sched.fires-once-by-max")
	vAssert(firedN >= 0 && firedN <= counted, "c06.sched.reports-confirmations")
	vCover("c06.sched")
}

var vLogScale = map[int]int64{1: 1000, 2: 1000, 3: 1000, 5: 1000, 10: 1000, 100: 2000}

// C06 at the node-table level: k/min/max set-up, stale timers, refutation and end-to-end bounds.
func H_C06_StateLevel() {
	conf := vBaseConfig()
	conf.SuspicionMult = []int{2, 4, 6}[vPick(3)]
	conf.SuspicionMaxTimeoutMult = 6
	conf.ProbeInterval = time.Second
	f := vNewML(conf)
	m := f.m
	f.vAddSelf(1, nil)
	f.vAddConcreteAlive(vPeerB, 3)
	a := f.vAddConcreteAlive(vPeerA, 2)
	inc := vU32()
	vAssume(inc < 0xFFFFFFF0)
	a.Incarnation = inc
	n := []int{1, 2, 3, 5, 10, 100}[vPick(6)]
	m.numNodes.Store(uint32(n))
	from := []string{vSelf, vPeerB}[vPick(2)]

	m.suspectNode(&suspect{Incarnation: inc, Node: vPeerA, From: from})
	t1 := m.nodeTimers[vPeerA]
	vAssert(t1 != nil && a.State == StateSuspect, "c06.state.suspected")
	if t1 == nil {
		return
	}
	wantK := conf.SuspicionMult - 2
	if n-2 < wantK {
		wantK = 0
	}
	wantMin := time.Duration(conf.SuspicionMult) * time.Duration(vLogScale[n]) * conf.ProbeInterval / 1000
	vAssert(int(t1.k) == wantK, "c06.state.k")
	vAssert(t1.min == wantMin, "c06.state.min")
	vAssert(t1.max == 6*wantMin, "c06.state.max")
	_, accuserExcluded := t1.confirmations[from]
	vAssert(accuserExcluded, "c06.state.accuser-excluded")
	armed := t1.max
	if wantK < 1 {
		armed = t1.min
	}

	switch vPick(4) {
	case 3:
		// a stale claim about the suspect (older incarnation; any kind, any sender) leaves the running suspicion
		// alone, and a genuine confirmation arriving after it still counts and the deadline still holds
		vAssume(inc > 0)
		older := vU32()
		vAssume(older < inc)
		switch vPick(3) {
		case 0:
			m.deadNode(&dead{Incarnation: older, Node: vPeerA, From: []string{vPeerB, vPeerA, "n3"}[vPick(3)]})
		case 1:
			m.suspectNode(&suspect{Incarnation: older, Node: vPeerA, From: "n3"})
		case 2:
			// ... also one that names another address while a name-reclaim time is configured and has already
			// passed since the suspicion began: only a dead or departed holder can be replaced, not a suspect
			addr := a.Addr
			if vPick(2) == 1 {
				addr = []byte{10, 9, 9, 9}
				conf.DeadNodeReclaimTime = []time.Duration{0, time.Millisecond}[vPick(2)]
				vAdvance(2 * time.Millisecond)
			}
			m.aliveNode(&alive{Incarnation: older, Node: vPeerA, Addr: addr, Port: a.Port}, nil, false)
			vAssert(vEqBytes(a.Addr, []byte{10, 0, 0, 2}), "c06.state.stale-claim-keeps-address")
		}
		vAssert(m.nodeTimers[vPeerA] == t1 && a.State == StateSuspect && a.Incarnation == inc, "c06.state.stale-claim-keeps-suspicion")
		vAssert(t1.n.Load() == 0 && len(f.ev.log) == 0, "c06.state.stale-claim-not-a-confirmation")
		m.suspectNode(&suspect{Incarnation: inc, Node: vPeerA, From: "n3"})
		if wantK >= 1 {
			vAssert(t1.n.Load() == 1, "c06.state.confirmation-after-stale-claim-counts")
		}
		vAssert(f.vIsMember(vPeerA), "c06.state.still-member-after-confirmation")
		vAdvance(armed)
		vAssert(a.State == StateDead, "c06.state.dead-by-max-after-stale-claim")
		vCover("c06.state.stale-claim")
	case 0:
		// end-to-end bounds without confirmations: member until the armed deadline, dead at it, on our own evidence
		// reaping passes may run at any time during the suspicion, with a GossipToTheDeadTime shorter or longer
		// than the suspicion timeout: a suspect is not a dead record and is never reaped
		conf.GossipToTheDeadTime = []time.Duration{time.Second, 30 * time.Second}[vPick(2)]
		vAdvance(armed - 1)
		m.resetNodes()
		vAssert(m.nodeMap[vPeerA] == a, "c06.state.suspect-not-reaped")
		vAssert(f.vIsMember(vPeerA), "c06.state.not-dead-early")
		vAssert(len(f.ev.log) == 0, "c06.state.no-early-event")
		vAdvance(1)
		vAssert(a.State == StateDead, "c06.state.dead-at-deadline")
		vAssert(len(f.ev.log) == 1 && f.ev.log[0].kind == 2, "c06.state.leave-once")
		mb := f.vQueuedFor(vPeerA)
		vAssert(mb != nil && mb.msg[0] == byte(deadMsg), "c06.state.dead-gossiped")
		if mb != nil {
			var d dead
			vAssert(decode(mb.msg[1:], &d) == nil, "c06.state.dead-decodes")
			vAssert(d.From == vSelf && d.Node == vPeerA && d.Incarnation == inc, "c06.state.dead-from-self")
		}
		vCover("c06.state.expiry")
	case 1:
		// refutation then re-suspicion: the first (stale) timer must not kill the new suspicion
		m.aliveNode(&alive{Incarnation: inc + 1, Node: vPeerA, Addr: a.Addr, Port: a.Port}, nil, false)
		vAssert(a.State == StateAlive && len(m.nodeTimers) == 0, "c06.state.refuted")
		vAdvance(time.Duration(vRange(1, int(time.Second))))
		m.suspectNode(&suspect{Incarnation: inc + 1, Node: vPeerA, From: from})
		t2 := m.nodeTimers[vPeerA]
		vAssert(t2 != nil && t2 != t1, "c06.state.resuspected")
		t1.timeoutFn()
		vAssert(a.State == StateSuspect, "c06.state.stale-timer-harmless")
		vAssert(len(f.ev.log) == 0, "c06.state.stale-timer-silent")
		if t2 != nil {
			t2.timeoutFn()
			vAssert(a.State == StateDead && a.Incarnation == inc+1, "c06.state.current-timer-kills")
			t2.timeoutFn()
			vAssert(len(f.ev.log) == 1, "c06.state.second-fire-silent")
		}
		vCover("c06.state.stale")
	case 2:
		// another node's death claim or a refutation wins over the pending timer
		if vPick(2) == 1 {
			m.deadNode(&dead{Incarnation: inc, Node: vPeerA, From: vPeerB})
			vAssert(a.State == StateDead, "c06.state.dead-claim-accepted")
			t1.timeoutFn()
			vAssert(len(f.ev.log) == 1, "c06.state.timer-after-dead-silent")
		} else {
			m.aliveNode(&alive{Incarnation: inc + 1, Node: vPeerA, Addr: a.Addr, Port: a.Port}, nil, false)
			t1.timeoutFn()
			vAssert(a.State == StateAlive, "c06.state.timer-after-refute-harmless")
			vAssert(len(f.ev.log) == 0, "c06.state.timer-after-refute-silent")
			vAdvance(7 * wantMin)
			vAssert(a.State == StateAlive, "c06.state.peer-stays")
		}
		vCover("c06.state.override")
	}
}

// C06: push/pull hearsay about a member we already suspect on our own evidence is not an independent confirmation
// (it is attributed to the local node, the original accuser); a genuinely new confirmer counts exactly once.
func H_C06_Hearsay() {
	conf := vBaseConfig()
	conf.SuspicionMult = 4 + vPick(2)
	f := vNewML(conf)
	m := f.m
	f.vAddSelf(1, nil)
	a := f.vAddConcreteAlive(vPeerA, 2)
	a.Incarnation = vU32()
	vAssume(a.Incarnation < 0xFFFFFFF0)
	f.vAddConcreteAlive(vPeerB, 3)
	m.numNodes.Store(uint32(10)) // enough peers for confirmations to be expected (k >= 2)
	m.suspectNode(&suspect{Incarnation: a.Incarnation, Node: vPeerA, From: vSelf})
	t := m.nodeTimers[vPeerA]
	vAssert(t != nil && t.k >= 2, "c06.hearsay.armed")
	if t == nil {
		return
	}
	q0 := m.broadcasts.NumQueued()
	rem0 := vTimerRemaining(t.timer)
	// push/pull entries about the suspect, in either non-alive state, at any incarnation
	inc := vU32()
	st := []NodeStateType{StateSuspect, StateDead}[vPick(2)]
	m.mergeState([]pushNodeState{{Name: vPeerA, Addr: a.Addr, Port: a.Port, Incarnation: inc, State: st}})
	vAssert(t.n.Load() == 0, "c06.hearsay.not-a-confirmation")
	vAssert(m.nodeTimers[vPeerA] == t, "c06.hearsay.same-suspicion")
	if vSymbolic() {
		vAssert(vTimerRemaining(t.timer) == rem0, "c06.hearsay.deadline-unchanged")
	}
	vAssert(a.State == StateSuspect, "c06.hearsay.still-suspect")
	// a real third party does count, once
	m.suspectNode(&suspect{Incarnation: a.Incarnation, Node: vPeerA, From: vPeerB})
	vAssert(t.n.Load() == 1, "c06.hearsay.peer-confirms")
	m.suspectNode(&suspect{Incarnation: a.Incarnation, Node: vPeerA, From: vPeerB})
	vAssert(t.n.Load() == 1, "c06.hearsay.peer-confirms-once")
	_ = q0
	vCover("c06.hearsay")
}
