package memberlist

// Cluster composition: several real Memberlist instances (every one executed from its real code) joined by a
// simulated network whose per-packet latency is a symbolic value below half the probe timeout. Packets travel
// as AfterFunc timers that hand the bytes to the destination's real ingestPacket; streams are in-memory duplex
// pipes served by the destination's real handleConn; every node runs its real packetHandler goroutine.
// The harness plays the role of the three tickers (probe, gossip, push/pull) so that the schedule is explicit.

import (
	"net"
	"time"
)

var vClusterNames = []string{vSelf, vPeerA, vPeerB, "n3"}

type vCluster struct {
	f       []*vFix
	down    []bool // crashed: nothing is delivered to or accepted from the node, connection attempts time out
	probing []bool
	lat     func(src, dst int) time.Duration
	packets int
	streams int
	initial []map[string]bool // names each node listed when the run began (nil = every node)
}

func vClusterAddr(i int) string { return joinHostPort(net.IP{10, 0, 0, byte(i + 1)}.String(), 7946) }

func (c *vCluster) index(addr string) int {
	for i := range c.f {
		if vClusterAddr(i) == addr {
			return i
		}
	}
	return -1
}

// vNewCluster: n nodes that all list each other as alive (incarnation 1), as after a completed join.
func vNewCluster(n int, tweak func(i int, conf *Config)) *vCluster {
	c := &vCluster{down: make([]bool, n), probing: make([]bool, n)}
	for i := 0; i < n; i++ {
		conf := vBaseConfig()
		conf.Name = vClusterNames[i]
		if tweak != nil {
			tweak(i, conf)
		}
		f := vNewML(conf)
		f.m.setAdvertise(net.IP{10, 0, 0, byte(i + 1)}, 7946)
		f.del = &vDelegateRec{}
		conf.Delegate = f.del
		for j := 0; j < n; j++ {
			ns := &nodeState{Node: Node{Name: vClusterNames[j], Addr: net.IP{10, 0, 0, byte(j + 1)}, Port: 7946,
				PMin: ProtocolVersionMin, PMax: ProtocolVersionMax, PCur: conf.ProtocolVersion},
				Incarnation: 1, State: StateAlive, StateChange: vNow().Add(-time.Hour)}
			f.m.nodeMap[ns.Name] = ns
			f.m.nodes = append(f.m.nodes, ns)
		}
		f.m.numNodes.Store(uint32(n))
		f.m.incarnation.Store(1)
		c.f = append(c.f, f)
	}
	for i := range c.f {
		src := i
		c.f[i].tr.onWrite = func(b []byte, a Address) { c.send(src, b, a) }
		c.f[i].tr.onDial = func(a Address, timeout time.Duration) (net.Conn, error) { return c.dial(src, a, timeout) }
		go c.f[i].m.packetHandler()
	}
	return c
}

func (c *vCluster) send(src int, b []byte, a Address) {
	dst := c.index(a.Addr)
	if dst < 0 || c.down[src] {
		return
	}
	cp := append([]byte(nil), b...)
	c.packets++
	from := vAddr(vClusterAddr(src))
	time.AfterFunc(c.lat(src, dst), func() {
		if c.down[dst] {
			return
		}
		c.f[dst].m.ingestPacket(cp, from, time.Now())
	})
}

func (c *vCluster) dial(src int, a Address, timeout time.Duration) (net.Conn, error) {
	dst := c.index(a.Addr)
	if dst < 0 || c.down[dst] || c.down[src] {
		// a crashed host never completes the handshake: the attempt gives up when its own timeout expires
		time.Sleep(timeout)
		return nil, vTimeoutErr{}
	}
	c.streams++
	ea, eb := vNewDuplex()
	go c.f[dst].m.handleConn(eb)
	return ea, nil
}

// stop ends every node's background goroutine (so nothing is left running when the harness returns).
func (c *vCluster) stop() {
	for _, f := range c.f {
		if !f.m.hasShutdown() {
			f.m.shutdown.Store(1)
			close(f.m.shutdownCh)
		}
	}
	vYield()
}

// tick: what the three tickers of every live node do in one probe interval - every node starts a probe (unless
// its previous one is still running: the ticker drops ticks), and gossips five times, 200 ms apart.
func (c *vCluster) round(pushPullBy int) { c.roundHook(pushPullBy, nil) }

func (c *vCluster) roundHook(pushPullBy int, hook func(g int)) {
	for i, f := range c.f {
		if c.down[i] || c.probing[i] {
			continue
		}
		i, f := i, f
		c.probing[i] = true
		go func() { f.m.probe(); c.probing[i] = false }()
	}
	for g := 0; g < 5; g++ {
		if hook != nil {
			hook(g)
		}
		vAdvance(c.f[0].m.config.GossipInterval)
		for i, f := range c.f {
			if !c.down[i] {
				f.m.gossip()
			}
		}
		if g == 2 && pushPullBy >= 0 && !c.down[pushPullBy] {
			c.f[pushPullBy].m.pushPull()
		}
	}
}

// healthy: nobody suspects or has buried anybody, no suspicion timer exists, every health score is zero, and the
// only leave event anywhere is for a member that left gracefully.
func (c *vCluster) assertHealthy(leaver int, tag string) {
	for i, f := range c.f {
		if c.down[i] {
			continue
		}
		m := f.m
		vAssert(m.GetHealthScore() == 0, "c04.cluster.health-score-stays-zero"+tag)
		m.nodeLock.RLock()
		vAssert(len(m.nodeTimers) == 0, "c04.cluster.no-suspicion-timer"+tag)
		for _, ns := range m.nodes {
			ok := ns.State == StateAlive || (leaver >= 0 && ns.Name == vClusterNames[leaver] && ns.State == StateLeft)
			vAssert(ok, "c04.cluster.nobody-suspected-or-dead"+tag)
		}
		m.nodeLock.RUnlock()
		for _, e := range f.ev.log {
			vAssert(e.kind != 2 || (leaver >= 0 && e.name == vClusterNames[leaver]), "c04.cluster.no-leave-event"+tag)
		}
		vAssert(f.ev.unlocked == 0, "c04.cluster.events-serialised"+tag)
	}
	c.assertEventLogs()
}

// assertEventLogs: on every live node, replaying its join / leave / update callbacks over the initial table (every
// node listed) gives exactly what Members() returns now, metadata included.
func (c *vCluster) assertEventLogs() {
	for i, f := range c.f {
		if c.down[i] {
			continue
		}
		listed := map[string]bool{}
		meta := map[string][]byte{}
		for j := range c.f {
			if c.initial == nil || c.initial[i][vClusterNames[j]] {
				listed[vClusterNames[j]] = true
			}
		}
		for _, e := range f.ev.log {
			switch e.kind {
			case 1:
				vAssert(!listed[e.name], "c07.cluster.no-join-of-a-listed-member")
				listed[e.name], meta[e.name] = true, e.meta
			case 2:
				vAssert(listed[e.name], "c07.cluster.no-leave-of-an-unlisted-member")
				listed[e.name] = false
			case 3:
				vAssert(listed[e.name], "c07.cluster.no-update-of-an-unlisted-member")
				meta[e.name] = e.meta
			}
		}
		n := 0
		for _, mem := range f.m.Members() {
			n++
			vAssert(listed[mem.Name], "c07.cluster.members-are-those-the-events-announced")
			vAssert(vEqBytes(mem.Meta, meta[mem.Name]), "c07.cluster.metadata-is-what-the-events-announced")
		}
		want := 0
		for _, l := range listed {
			if l {
				want++
			}
		}
		vAssert(n == want, "c07.cluster.members-count-matches-the-events")
	}
}

// H_C04_Cluster: three responsive nodes, packet latency symbolic below half the probe timeout, a few probe
// intervals with probes, gossip and one push/pull running concurrently on all nodes while one user operation
// (metadata update / graceful leave / user broadcast) happens at a chosen round.
func H_C04_Cluster() { vClusterHealthyRun(-1) }

// H_C08_ClusterLeave: the same run with the user operation fixed to a graceful leave of node 2 (C08's composition:
// Leave returns without error, every peer records the leaver as Left - not failed - and delivers one leave event, and
// the leaver is gone from every Members(), its own included).
func H_C08_ClusterLeave() { vClusterHealthyRun(2) }

func vClusterHealthyRun(fixedOp int) {
	vOpt("threads", 4000)
	vOpt("timers", 4000)
	vOpt("sched-det", 1)
	vOpt("krandom-det", 1)
	n := 3
	tcp := vPick(2) == 1 // with the TCP fallback a lost UDP answer is masked (a warning is logged); without it, it is not
	c := vNewCluster(n, func(i int, conf *Config) { conf.DisableTcpPings = !tcp })
	half := int(c.f[0].m.config.ProbeTimeout / 2)
	l := time.Duration(vRange(0, half-1))
	c.lat = func(src, dst int) time.Duration { return l }
	// rotate the tables so that the probe targets of the first round differ (quick: one shared rotation; thorough:
	// node 1 rotated independently)
	rot := vPick(3)
	for i, f := range c.f {
		f.m.probeIndex = (i + rot) % 3
		if vTier() == 1 && i == 1 {
			f.m.probeIndex = (i + vPick(3)) % 3
		}
	}
	rounds := 3
	op := fixedOp // 0 none, 1 node 1 updates its metadata, 2 node 2 leaves, 3 node 0 queues a user broadcast
	if op < 0 {
		op = vPick(4)
	}
	at := 0        // the round in which the operation starts (thorough: any)
	pp := []int{n, 0}[vPick(2)] // who runs a push/pull in round 1 (n = nobody; thorough: anybody)
	if vTier() == 1 {
		if op != 0 {
			at = vPick(rounds)
		}
		pp = vPick(n + 1)
	}
	leaver := -1
	opDone := false
	var opErr error
	for r := 0; r < rounds; r++ {
		if r == at {
			switch op {
			case 1:
				c.f[1].del.meta = []byte{7}
				go func() { opErr = c.f[1].m.UpdateNode(2 * time.Second); opDone = true }()
			case 2:
				leaver = 2
				go func() { opErr = c.f[2].m.Leave(2 * time.Second); opDone = true }()
			case 3:
				c.f[0].del.bcast = append(c.f[0].del.bcast, []byte{byte(userMsg), 1, 2, 3})
			}
		}
		who := -1
		if r == 1 && pp < n {
			who = pp
		}
		c.round(who)
		c.assertHealthy(leaver, "")
	}
	vYield()
	if op == 1 || op == 2 {
		vAssert(opDone, "c04.cluster.user-operation-returns")
		vAssert(opErr == nil, "c04.cluster.user-operation-succeeds")
	}
	if op == 2 && opDone && opErr == nil && at < rounds-1 {
		// the departure has had at least one full interval to travel
		for i, f := range c.f {
			rec := f.m.nodeMap[vClusterNames[2]]
			vAssert(rec != nil && rec.State == StateLeft, "c08.cluster.recorded-as-left-everywhere")
			vAssert(!f.vIsMember(vClusterNames[2]), "c08.cluster.leaver-listed-nowhere")
			leaves := 0
			for _, e := range f.ev.log {
				if e.kind == 2 && e.name == vClusterNames[2] {
					leaves++
				}
			}
			if i != 2 {
				vAssert(leaves == 1, "c08.cluster.one-leave-event-per-peer")
				vAssert(len(f.m.Members()) == n-1, "c08.cluster.everybody-else-still-listed")
			}
		}
		vCover("c08.cluster.left")
	}
	if op == 1 && opDone && opErr == nil && at < rounds-1 {
		for _, f := range c.f {
			rec := f.m.nodeMap[vClusterNames[1]]
			vAssert(rec != nil && vEqBytes(rec.Meta, []byte{7}), "c04.cluster.metadata-update-reaches-every-member")
		}
	}
	c.stop()
	vCover("c04.cluster")
}

// H_C03_Cluster: a member of a running cluster (3 nodes, thorough 4) stops for good - before a probe interval
// begins or in the middle of one, with its answers to the pings of that interval already lost. Every surviving node
// keeps running its real probe / gossip loops (suspicions and confirmations travel between the survivors as
// real gossip). Each survivor must bury the crashed member - Dead, not Left, gone from Members(), exactly one leave
// event - within the configured bound, and the survivors never suspect each other.
func H_C03_Cluster() {
	vOpt("threads", 8000)
	vOpt("timers", 8000)
	vOpt("sched-det", 1)
	vOpt("krandom-det", 1)
	n := 3 + vTier()
	tcp := vPick(2) == 1
	c := vNewCluster(n, func(i int, conf *Config) { conf.DisableTcpPings = !tcp })
	conf := c.f[0].m.config
	half := int(conf.ProbeTimeout / 2)
	l := time.Duration(vRange(0, half-1))
	c.lat = func(src, dst int) time.Duration { return l }
	rot := vPick(n)
	for i, f := range c.f {
		f.m.probeIndex = (i + rot) % n
	}
	victim := n - 1
	mid := vPick(2) == 1 // the crash happens 200 ms into the first interval (pings to it are already on their way)
	if !mid {
		c.down[victim] = true
	}
	start := vNow()
	// two passes over the table at the slowest awareness-scaled pace plus the maximum suspicion timeout
	minTimeout := suspicionTimeout(conf.SuspicionMult, n, conf.ProbeInterval)
	bound := 2*time.Duration(n)*conf.ProbeInterval*time.Duration(conf.AwarenessMaxMultiplier) + time.Duration(conf.SuspicionMaxTimeoutMult)*minTimeout
	buried := func() bool {
		for i, f := range c.f {
			if i != victim && f.m.nodeMap[vClusterNames[victim]].State != StateDead {
				return false
			}
		}
		return true
	}
	for r := 0; r < 40 && !buried(); r++ {
		c.roundHook(-1, func(g int) {
			if mid && r == 0 && g == 1 {
				c.down[victim] = true
			}
		})
		for i, f := range c.f {
			if i == victim {
				continue
			}
			for j := 0; j < n; j++ {
				if j != victim {
					vAssert(f.m.nodeMap[vClusterNames[j]].State == StateAlive, "c03.cluster.survivors-never-suspect-each-other")
				}
			}
			vAssert(f.m.GetHealthScore() >= 0 && f.m.GetHealthScore() < conf.AwarenessMaxMultiplier, "c03.cluster.health-in-range")
		}
	}
	vAssert(buried(), "c03.cluster.every-survivor-buries-the-crashed-member")
	vAssert(vNow().Sub(start) <= bound, "c03.cluster.within-configured-bound")
	for i, f := range c.f {
		if i == victim {
			continue
		}
		vAssert(!f.vIsMember(vClusterNames[victim]), "c03.cluster.not-listed")
		vAssert(len(f.m.Members()) == n-1, "c03.cluster.survivors-listed")
		leaves := 0
		for _, e := range f.ev.log {
			vAssert(e.kind == 2 && e.name == vClusterNames[victim], "c03.cluster.only-the-crashed-leaves")
			leaves++
		}
		vAssert(leaves == 1, "c03.cluster.one-leave-event")
	}
	c.assertEventLogs()
	c.stop()
	vAdvance(conf.ProbeInterval * time.Duration(conf.AwarenessMaxMultiplier))
	vCover("c03.cluster")
}

// H_C04_SlowDelegate_RT: a node built by the real constructor (so the broadcast queue, its NumNodes callback and the
// listeners are wired the way newMemberlist wires them) is applying a membership claim - the user's Alive delegate
// runs under the node lock and takes its time - while the protocol carries on: a ping arrives and is answered
// with piggybacked gossip, a gossip tick runs, the application asks for Members()/NumMembers(), a second claim
// is handled. None of them may wedge (lock order between the node table and the broadcast queue), and everything
// finishes once the delegate returns.
func H_C04_SlowDelegate_RT() {
	vOpt("sched-det", 1)
	conf := vBaseConfig()
	conf.Logger = vLogger()
	rec := &vTransport{packetCh: make(chan *Packet, 1), streamCh: make(chan net.Conn, 1)}
	conf.Transport = rec
	al := &vAliveRec{}
	conf.Alive = al
	m, err := newMemberlist(conf)
	vAssert(err == nil, "c04.slow.created")
	if err != nil {
		return
	}
	vsn := conf.BuildVsnArray()
	self := alive{Incarnation: m.nextIncarnation(), Node: vSelf, Addr: []byte{10, 0, 0, 1}, Port: 7946, Vsn: vsn}
	m.aliveNode(&self, nil, true) // the node's own announcement is now waiting in the broadcast queue
	known := alive{Incarnation: 1, Node: vPeerB, Addr: []byte{10, 0, 0, 3}, Port: 7946, Vsn: vsn}
	m.aliveNode(&known, nil, false)
	release := make(chan struct{})
	entered := 0
	al.onNotify = func() { entered++; <-release }
	d1, d2 := false, false
	claim := alive{Incarnation: 1, Node: vPeerA, Addr: []byte{10, 0, 0, 2}, Port: 7946, Vsn: vsn}
	go func() { m.aliveNode(&claim, nil, false); d1 = true }()
	vYield()
	vAssert(entered == 1, "c04.slow.delegate-running")
	other := vPick(5)
	go func() {
		switch other {
		case 0:
			buf, _ := encode(pingMsg, &ping{SeqNo: 9, Node: vSelf, SourceAddr: []byte{10, 0, 0, 3}, SourcePort: 7946, SourceNode: vPeerB}, false)
			m.handlePing(buf.Bytes()[1:], vAddr("10.0.0.3:7946"))
		case 1:
			m.gossip()
		case 2:
			_ = m.NumMembers()
			_ = len(m.Members())
		case 3:
			_ = m.GetHealthScore()
			_ = m.broadcasts.NumQueued()
			_ = m.SendBestEffort(&Node{Name: vPeerB, Addr: []byte{10, 0, 0, 3}, Port: 7946, PMax: 5}, []byte{1})
		case 4:
			m.suspectNode(&suspect{Incarnation: 1, Node: vPeerB, From: vPeerB})
		}
		d2 = true
	}()
	vYield()
	close(release)
	for i := 0; i < 6 && !(d1 && d2); i++ {
		vYield()
	}
	vAssert(d1, "c04.slow.claim-applied")
	vAssert(d2, "c04.slow.concurrent-operation-finishes")
	if other == 0 {
		vAssert(len(rec.packets) >= 1, "c04.slow.ack-sent")
	}
	if d1 && d2 {
		vAssert(m.Shutdown() == nil, "c04.slow.shutdown")
	}
	vCover("c04.slow")
}

// forget removes name from node i's table (the node has never heard of it).
func (c *vCluster) forget(i int, name string) {
	m := c.f[i].m
	delete(m.nodeMap, name)
	kept := m.nodes[:0]
	for _, ns := range m.nodes {
		if ns.Name != name {
			kept = append(kept, ns)
		}
	}
	m.nodes = kept
	m.numNodes.Store(uint32(len(kept)))
}

// H_C09_ClusterJoin: a newcomer (node 3, knows only itself) joins a running 3-node cluster through the public Join
// while everybody keeps probing and gossiping (symbolic latency below ProbeTimeout/2). Join reports success; at once
// the joiner lists the host and everybody the host reported, and the host lists the joiner; one interval later the
// other members list the joiner too (learnt by gossip); nobody is suspected, every health score stays 0, and on every
// node the callbacks account for Members() exactly.
func H_C09_ClusterJoin() {
	vOpt("rand-zero", 1)
	vOpt("threads", 6000)
	vOpt("timers", 6000)
	vOpt("sched-det", 1)
	vOpt("krandom-det", 1)
	n := 4
	tcp := vPick(2) == 1
	c := vNewCluster(n, func(i int, conf *Config) { conf.DisableTcpPings = !tcp })
	c.initial = make([]map[string]bool, n)
	for i := 0; i < n; i++ {
		c.initial[i] = map[string]bool{}
		if i < 3 {
			c.forget(i, vClusterNames[3])
			for j := 0; j < 3; j++ {
				c.initial[i][vClusterNames[j]] = true
			}
		} else {
			for j := 0; j < 3; j++ {
				c.forget(3, vClusterNames[j])
			}
			c.initial[3][vClusterNames[3]] = true
		}
	}
	half := int(c.f[0].m.config.ProbeTimeout / 2)
	l := time.Duration(vRange(0, half-1))
	c.lat = func(src, dst int) time.Duration { return l }
	rot := vPick(3)
	for i := 0; i < 3; i++ {
		c.f[i].m.probeIndex = (i + rot) % 3
	}
	host := vPick(1 + 2*vTier()) // quick: node 0; thorough: any member
	at := vPick(2)
	joined, cnt := false, 0
	var jerr error
	for r := 0; r < 3; r++ {
		if r == at {
			go func() {
				cnt, jerr = c.f[3].m.Join([]string{vClusterAddr(host)})
				joined = true
			}()
			vYield()
			vAssert(joined, "c09.cluster.join-returns")
			vAssert(jerr == nil && cnt == 1, "c09.cluster.join-succeeds")
			for j := 0; j < 3; j++ {
				vAssert(c.f[3].vIsMember(vClusterNames[j]), "c09.cluster.joiner-lists-host-and-reported-members")
			}
			vAssert(c.f[host].vIsMember(vClusterNames[3]), "c09.cluster.host-lists-joiner")
		}
		c.round(-1)
		c.assertHealthy(-1, "")
	}
	for i := 0; i < n; i++ {
		vAssert(len(c.f[i].m.Members()) == n, "c09.cluster.everybody-lists-everybody-one-interval-later")
	}
	c.stop()
	vCover("c09.cluster.join")
}

func init() {
	vRegister("H_C09_ClusterJoin", H_C09_ClusterJoin)
	vRegister("H_C04_SlowDelegate_RT", H_C04_SlowDelegate_RT)
	vRegister("H_C04_Cluster", H_C04_Cluster)
	vRegister("H_C08_ClusterLeave", H_C08_ClusterLeave)
	vRegister("H_C03_Cluster", H_C03_Cluster)
	vRegister("H_DBG_Cluster", H_DBG_Cluster)
}

func H_DBG_Cluster() {
	vOpt("threads", 4000)
	vOpt("timers", 4000)
	vOpt("sched-det", 1)
	vOpt("krandom-det", 1)
	n := 3
	c := vNewCluster(n, func(i int, conf *Config) { conf.DisableTcpPings = true })
	l := time.Duration(0)
	c.lat = func(src, dst int) time.Duration { return l }
	rots := []int{1, 0, 0}
	for i, f := range c.f {
		f.m.probeIndex = (i + rots[i]) % 3
	}
	opDone := false
	go func() { c.f[2].m.Leave(2 * time.Second); opDone = true }()
	for r := 0; r < 3; r++ {
		c.round(-1)
	}
	vYield()
	if !opDone {
		vDumpThreads()
	}
	vAssert(opDone, "dbg.returns")
	c.stop()
}
