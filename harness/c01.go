package memberlist

import (
	"net"
	"time"
)

func init() {
	vRegister("H_C01_Step", H_C01_Step)
	vRegister("H_C01_WirePushPull", H_C01_WirePushPull)
}

type vClaim struct {
	kind  int // 0 alive 1 suspect 2 dead
	inc   uint32
	from  string
	addr  []byte
	port  uint16
	meta  []byte
	vsn   []uint8
	merge bool // delivered as a push/pull entry through mergeState
	mstate NodeStateType
}

// vDeliver hands one claim about target to the real code, directly or as a push/pull entry.
func (f *vFix) vDeliver(target string, c *vClaim) {
	m := f.m
	if c.merge {
		r := pushNodeState{Name: target, Addr: c.addr, Port: c.port, Meta: c.meta, Incarnation: c.inc, State: c.mstate, Vsn: c.vsn}
		m.mergeState([]pushNodeState{r})
		return
	}
	switch c.kind {
	case 0:
		a := alive{Incarnation: c.inc, Node: target, Addr: c.addr, Port: c.port, Meta: c.meta, Vsn: c.vsn}
		m.aliveNode(&a, nil, false)
	case 1:
		s := suspect{Incarnation: c.inc, Node: target, From: c.from}
		m.suspectNode(&s)
	case 2:
		d := dead{Incarnation: c.inc, Node: target, From: c.from}
		m.deadNode(&d)
	}
}

// vArbClaim builds an arbitrary claim. For push/pull entries the claim kind is what mergeState maps the
// entry state to (alive->alive, suspect/dead->suspect from self, left->dead signed by the node itself).
func vArbClaim(target string) *vClaim {
	c := &vClaim{inc: vU32()}
	c.merge = vPick(2) == 1
	if c.merge {
		c.mstate = NodeStateType(vPick(4))
		switch c.mstate {
		case StateAlive:
			c.kind = 0
		case StateLeft:
			c.kind, c.from = 2, target
		default:
			c.kind, c.from = 1, vSelf
		}
	} else {
		c.kind = vPick(3)
		c.from = []string{vSelf, vPeerA, vPeerB}[vPick(3)]
	}
	if c.kind == 0 {
		c.addr = vBytes(vAddrLen())
		c.port = vU16()
		c.meta = vBytes(vMetaLen())
		// version vector: absent, one byte short of complete, complete (thorough: also the 3-byte form)
		c.vsn = vBytes([]int{0, 6, 5, 3}[vPick(3+vTier())])
		if len(c.vsn) == 0 {
			c.vsn = nil
		}
	}
	return c
}

// C01: a claim that is older or weaker than what the node holds changes nothing.
func H_C01_Step() {
	conf := vBaseConfig()
	conf.DeadNodeReclaimTime = time.Duration(vRange(0, 1<<44))
	f := vNewML(conf)
	m := f.m
	if vPick(2) == 1 {
		f.alive = &vAliveRec{veto: vBool()}
		conf.Alive = f.alive
	}
	f.vAddSelf(vU32(), vBytes(1))
	f.vAddConcreteAlive(vPeerB, 3)
	target := []string{vPeerA, vSelf}[vPick(2)]
	if target == vPeerA {
		f.vAddNode(vPeerA, vMetaLen())
	}
	c := vArbClaim(target)
	if target == vSelf {
		// C02 excludes the largest representable incarnation (the refutation counter would wrap)
		vAssume(c.inc != 0xFFFFFFFF)
	}

	pre := f.vSnapshot(target)
	preQueued := m.broadcasts.NumQueued()
	preNodes := len(m.nodes)
	preTimers := len(m.nodeTimers)
	var preConf int32 = -1
	if t, ok := m.nodeTimers[target]; ok {
		preConf = t.n.Load()
	}
	preSelfInc := m.incarnation.Load()
	preScore := m.GetHealthScore()
	age := time.Since(pre.change)

	f.vDeliver(target, c)

	rankC, rankH := c.kind, vRank(pre.state)
	older := vOr(c.inc < pre.inc, vAnd(c.inc == pre.inc, rankC < rankH))
	equal := vAnd(c.inc == pre.inc, rankC == rankH)
	diffAddr := vOr(!vEqBytes(c.addr, pre.addr), c.port != pre.port)
	canReclaim := vAnd(conf.DeadNodeReclaimTime > 0, age > conf.DeadNodeReclaimTime)
	reclaim := vAnd(c.kind == 0, vAnd(diffAddr, vOr(pre.state == StateLeft, vAnd(pre.state == StateDead, canReclaim))))

	if older && !reclaim {
		vAssert(f.vSameRecord(target, pre), "c01.older.record-unchanged")
		vAssert(len(f.ev.log) == 0, "c01.older.no-event")
		vAssert(m.broadcasts.NumQueued() == preQueued, "c01.older.no-regossip")
		vAssert(len(m.nodes) == preNodes, "c01.older.nodes-unchanged")
		vAssert(len(m.nodeTimers) == preTimers, "c01.older.timers-unchanged")
		if t, ok := m.nodeTimers[target]; ok {
			vAssert(t.n.Load() == preConf, "c01.older.confirmations-unchanged")
		}
		vAssert(m.incarnation.Load() == preSelfInc, "c01.older.self-inc-unchanged")
		vAssert(m.GetHealthScore() == preScore, "c01.older.score-unchanged")
		vCover("c01.older")
	} else if equal && !reclaim && pre.present && target != vSelf {
		// a duplicate of what is already held: the record itself never changes; only an equal suspect
		// claim from a new confirmer may be re-gossiped and shorten the timer.
		vAssert(f.vSameRecord(target, pre), "c01.equal.record-unchanged")
		vAssert(len(f.ev.log) == 0, "c01.equal.no-event")
		if c.kind != 1 {
			vAssert(m.broadcasts.NumQueued() == preQueued, "c01.equal.no-regossip")
		}
		vCover("c01.equal")
	} else if pre.present && !reclaim {
		// monotonicity: the view only moves forward in (incarnation, rank)
		post := f.vSnapshot(target)
		vAssert(post.present, "c01.newer.still-present")
		rankP := vRank(post.state)
		fwd := vOr(post.inc > pre.inc, vAnd(post.inc == pre.inc, rankP >= rankH))
		vAssert(fwd, "c01.newer.monotone")
		vCover("c01.newer")
	} else {
		vCover("c01.other")
	}
	// the representation invariant assumed of the pre-state is re-established (this is what makes the
	// one-step argument cover every delivery order)
	for name, ns := range m.nodeMap {
		_, timer := m.nodeTimers[name]
		if name == vSelf {
			vAssert(!timer, "c01.inv.no-timer-for-self")
			vAssert(ns.State == StateAlive, "c01.inv.self-alive")
			vAssert(ns.Incarnation <= m.incarnation.Load(), "c01.inv.self-inc-le-counter")
		} else {
			vAssert((ns.State == StateSuspect) == timer, "c01.inv.suspect-iff-timer")
		}
	}
	vAssert(len(m.nodes) == len(m.nodeMap) && int(m.numNodes.Load()) == len(m.nodes), "c01.inv.table-consistent")
	_ = net.IP{}
}

// C01 with the real push/pull wire as the carrier (readRemoteState's port normalisation included): an alive
// entry about a known member that is no newer than the record, coming from a sender that does not know ports
// (port 0) or read by an observer speaking protocol version 1 (ports ignored), names the member's own address;
// it must change nothing whatever state the record is in, however old it is.
func H_C01_WirePushPull() {
	cb := vBaseConfig()
	pv1 := vPick(2) == 1
	if pv1 {
		cb.ProtocolVersion = 1
	}
	cb.DeadNodeReclaimTime = []time.Duration{0, time.Minute}[vPick(2)]
	fb := vNewML(cb)
	fb.vAddSelf(5, nil)
	inc := vU32()
	vAssume(inc >= 1 && inc < 0xFFFFFFF0)
	rec := fb.vAddConcreteAlive(vPeerA, 2) // 10.0.0.2:7946, last change an hour ago
	rec.Incarnation = inc
	rec.State = []NodeStateType{StateAlive, StateSuspect, StateDead, StateLeft}[vPick(4)]
	rec.Meta = vBytes(1)

	// the sender's view of the same member: same address, older or equal incarnation, other metadata
	ca := vBaseConfig()
	ca.Name = vPeerB
	fa := vNewML(ca)
	claim := vU32()
	vAssume(claim <= inc)
	port := uint16(0)
	if pv1 && vPick(2) == 1 {
		port = 9999
	}
	na := &nodeState{Node: Node{Name: vPeerA, Addr: []byte{10, 0, 0, 2}, Port: port, Meta: vBytes(1), PMin: 1, PMax: 5, PCur: 2}, Incarnation: claim, State: StateAlive}
	fa.m.nodes = append(fa.m.nodes, na)
	fa.m.nodeMap[vPeerA] = na
	wire := &vConn{}
	vAssert(fa.m.sendLocalState(wire, false, "") == nil, "c01.wire.send-ok")

	pre := fb.vSnapshot(vPeerA)
	conn := &vConn{in: wire.out}
	fb.m.handleConn(conn)
	vAssert(len(conn.out) > 0, "c01.wire.exchange-completed")
	vAssert(fb.vSameRecord(vPeerA, pre), "c01.wire.older.record-unchanged")
	vAssert(len(fb.ev.log) == 0, "c01.wire.older.no-event")
	vAssert(fb.m.broadcasts.NumQueued() == 0, "c01.wire.older.no-regossip")
	vAssert(fb.conflict.n == 0, "c01.wire.same-address-no-conflict")
	vCover("c01.wire")
}
