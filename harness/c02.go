package memberlist

func init() {
	vRegister("H_C02_Refute", H_C02_Refute)
	vRegister("H_C02_SelfAnnounce", H_C02_SelfAnnounce)
}

// vQueuedFor returns the broadcast currently queued under name (nil if none).
func (f *vFix) vQueuedFor(name string) *memberlistBroadcast {
	q := f.m.broadcasts
	if q.tm == nil {
		return nil
	}
	lb, ok := q.tm[name]
	if !ok {
		return nil
	}
	mb, _ := lb.b.(*memberlistBroadcast)
	return mb
}

// vQueuedAliveAbout returns a queued alive broadcast whose decoded subject is name (nil if none).
func (f *vFix) vQueuedAliveAbout(name string) *memberlistBroadcast {
	q := f.m.broadcasts
	for _, lb := range q.tm {
		mb, ok := lb.b.(*memberlistBroadcast)
		if !ok || len(mb.msg) == 0 || mb.msg[0] != byte(aliveMsg) {
			continue
		}
		var a alive
		if decode(mb.msg[1:], &a) == nil && a.Node == name {
			return mb
		}
	}
	return nil
}

// C02: a running node that has not left answers every accusation with a strictly newer alive.
func H_C02_Refute() {
	conf := vBaseConfig()
	f := vNewML(conf)
	m := f.m
	selfInc := vU32()
	gap := uint32(vRange(0, 2))
	vAssume(selfInc < 0xFFFFFFF0)
	me := f.vAddSelf(selfInc, vBytes(vPick(2)))
	m.incarnation.Store(selfInc + gap) // the counter may run ahead of the record (UpdateNode in flight)
	if vPick(2) == 1 {
		f.vAddConcreteAlive(vPeerA, 2)
	}
	preScore := vRange(0, 7)
	m.awareness.score = preScore
	c := vArbClaim(vSelf)
	vAssume(c.inc != 0xFFFFFFFF)
	if c.kind == 0 {
		// alive claims that name our own address (the conflict branch is C08's subject)
		c.addr = []byte{10, 0, 0, 1}
		c.port = 7946
	}
	preMeta := append([]byte(nil), me.Meta...)
	versions := []byte{me.PMin, me.PMax, me.PCur, me.DMin, me.DMax, me.DCur}

	f.vDeliver(vSelf, c)

	vAssert(me.State == StateAlive, "c02.self-stays-alive")
	vAssert(f.vIsMember(vSelf), "c02.self-listed")
	vAssert(m.nodeMap[vSelf] == me, "c02.self-record-kept")

	vsnBad := false
	if len(c.vsn) >= 3 {
		vsnBad = vOr(vOr(c.vsn[0] == 0, c.vsn[1] == 0), c.vsn[0] > c.vsn[1])
	}
	var need bool
	if c.kind == 0 {
		differs := vOr(!vEqBytes(c.meta, preMeta), !vEqBytes(c.vsn, versions))
		need = vAnd(!vsnBad, vOr(c.inc > selfInc, vAnd(c.inc == selfInc, differs)))
	} else {
		need = c.inc >= selfInc
	}
	if need {
		vAssert(me.Incarnation > c.inc, "c02.refute.beats-accusation")
		vAssert(me.Incarnation > selfInc, "c02.refute.moves-forward")
		vAssert(m.incarnation.Load() == me.Incarnation, "c02.refute.counter-matches")
		// (refute() happens to queue its alive under the node's address string rather than its name; the oracle
		// only requires that some queued alive message names us, whatever key it is filed under)
		mb := f.vQueuedAliveAbout(vSelf)
		vAssert(mb != nil, "c02.refute.alive-queued")
		if mb != nil {
			vAssert(mb.msg[0] == byte(aliveMsg), "c02.refute.is-alive-msg")
			var a alive
			err := decode(mb.msg[1:], &a)
			vAssert(err == nil, "c02.refute.decodes")
			vAssert(a.Incarnation == me.Incarnation, "c02.refute.carries-new-inc")
			vAssert(a.Node == vSelf, "c02.refute.names-self")
		}
		want := preScore + 1
		if want > 7 {
			want = 7
		}
		vAssert(m.GetHealthScore() == want, "c02.refute.score")
		vCover("c02.refuted")
	} else {
		vAssert(me.Incarnation == selfInc, "c02.norefute.inc-unchanged")
		vAssert(m.GetHealthScore() == preScore, "c02.norefute.score")
		vCover("c02.ignored")
	}
}

// C02 second half: every self-announcement (setAlive/UpdateNode core) bumps the incarnation and is accepted.
func H_C02_SelfAnnounce() {
	conf := vBaseConfig()
	f := vNewML(conf)
	m := f.m
	selfInc := vU32()
	vAssume(selfInc < 0xFFFFFFF0)
	me := f.vAddSelf(selfInc, vBytes(vPick(2)))
	newMeta := vBytes(vPick(2))
	a := alive{Incarnation: m.nextIncarnation(), Node: vSelf, Addr: me.Addr, Port: me.Port, Meta: newMeta, Vsn: conf.BuildVsnArray()}
	preMeta := append([]byte(nil), me.Meta...)
	m.aliveNode(&a, nil, true)
	vAssert(me.Incarnation == selfInc+1, "c02.announce.inc")
	vAssert(vEqBytes(me.Meta, newMeta), "c02.announce.meta")
	vAssert(me.State == StateAlive, "c02.announce.alive")
	mb := f.vQueuedFor(vSelf)
	vAssert(mb != nil, "c02.announce.queued")
	if !vEqBytes(preMeta, newMeta) {
		vAssert(len(f.ev.log) == 1 && f.ev.log[0].kind == 3, "c02.announce.update-event")
	} else {
		vAssert(len(f.ev.log) == 0, "c02.announce.no-event")
	}
	vCover("c02.announce")
}
