package memberlist

import (
	"encoding/json"
	"fmt"
	"os"
	"runtime"
	"runtime/debug"
	"strings"
	"testing"
	"testing/synctest"
	"time"
)

type vReplayFile struct {
	Harness string   `json:"harness"`
	Vec     []uint64 `json:"vec"`
	Kinds   []string `json:"kinds"`
	Tier    int      `json:"tier"`
}

// vSettleGoroutines waits (real time, outside any bubble) until the process's goroutine count has stopped
// changing: goroutines left winding down by an earlier real-time item must not move the baseline that
// vLiveGoroutines compares against.
func vSettleGoroutines() {
	stable := 0
	last := runtime.NumGoroutine()
	for i := 0; i < 400 && stable < 5; i++ {
		time.Sleep(2 * time.Millisecond)
		n := runtime.NumGoroutine()
		if n == last {
			stable++
		} else {
			stable, last = 0, n
		}
	}
}

// TestVerifReplay replays one or more solver models (VERIF_REPLAY = JSON file holding a list).
func TestVerifReplay(t *testing.T) {
	path := os.Getenv("VERIF_REPLAY")
	if path == "" {
		t.Skip("no VERIF_REPLAY")
	}
	b, err := os.ReadFile(path)
	if err != nil {
		t.Fatal(err)
	}
	var items []vReplayFile
	if err := json.Unmarshal(b, &items); err != nil {
		t.Fatal(err)
	}
	for i, it := range items {
		vSettleGoroutines()
		out := func() (o string) {
			var res string
			defer func() {
				if r := recover(); r != nil {
					if res != "" && res != "VREPLAY ok" {
						// the harness already reported (e.g. a failed assertion); the bubble's own complaint
						// about goroutines left behind comes second
						o = res
						return
					}
					o = fmt.Sprintf("VREPLAY panic=%v", r)
					_ = debug.Stack
				}
			}()
			vTierVal = it.Tier
			if strings.HasSuffix(it.Harness, "_RT") {
				// real-time harness (goroutines parked on mutexes cannot be replayed under synctest)
				vRealTime = true
				defer func() { vRealTime = false }()
				return vRunReplay(it.Harness, it.Vec, it.Kinds)
			}
			synctest.Test(t, func(t *testing.T) {
				res = vRunReplay(it.Harness, it.Vec, it.Kinds)
			})
			return res
		}()
		fmt.Printf("VREPLAY-ITEM %d %s covers=%s\n", i, out, strings.Join(vCovers, ","))
	}
}
