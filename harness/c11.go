package memberlist

func init() {
	vRegister("H_C11_CompoundRoundTrip", H_C11_CompoundRoundTrip)
	vRegister("H_C11_DecodeHostile", H_C11_DecodeHostile)
}

// C11 lossless (content): makeCompoundMessage then decodeCompoundMessage returns exactly the parts.
func H_C11_CompoundRoundTrip() {
	n := vPick(4) // 0..3 parts
	msgs := make([][]byte, n)
	for i := 0; i < n; i++ {
		msgs[i] = vBytes(vPick(4)) // 0..3 bytes each
	}
	buf := makeCompoundMessage(msgs).Bytes()
	vAssert(buf[0] == byte(compoundMsg), "c11.rt.type")
	trunc, parts, err := decodeCompoundMessage(buf[1:])
	vAssert(err == nil, "c11.rt.err")
	vAssert(trunc == 0, "c11.rt.trunc")
	vAssert(len(parts) == n, "c11.rt.count")
	for i := 0; i < n && i < len(parts); i++ {
		vAssert(vEqBytes(parts[i], msgs[i]), "c11.rt.part")
	}
	vCover("c11.rt.done")
}

// C13/C11: decodeCompoundMessage on arbitrary bytes never panics and accounts for every declared part.
func H_C11_DecodeHostile() {
	buf := vBytes(vPick(9)) // 0..8 arbitrary bytes
	trunc, parts, err := decodeCompoundMessage(buf)
	if err == nil {
		vAssert(trunc+len(parts) == int(buf[0]), "c11.hostile.accounting")
		total := 0
		for _, p := range parts {
			total += len(p)
		}
		vAssert(total <= len(buf), "c11.hostile.total")
		vCover("c11.hostile.ok")
	} else {
		vCover("c11.hostile.err")
	}
}
