package main

import (
	"fmt"
	"go/token"
	"go/types"
	"math"

	"golang.org/x/tools/go/ssa"
)

func (fr *frame) unop(instr *ssa.UnOp, x Value) Value {
	p := fr.p
	switch instr.Op {
	case token.MUL: // load
		addr := x.(*Value)
		fr.nilCheck(addr, instr.Pos(), "load")
		return load(addr)
	case token.ARROW:
		v, ok := p.chanRecv(fr, x.(*ChanObj), instr.Pos())
		if instr.CommaOk {
			return TupleVal{v, BoolT(ok)}
		}
		return v
	case token.NOT:
		return Not(x.(*Term))
	case token.SUB:
		switch x := x.(type) {
		case *Term:
			return Neg(x)
		case FloatVal:
			return FloatVal{F: -x.F, Sym: x.Sym}
		}
	case token.XOR:
		return BvNot(x.(*Term))
	}
	unsup("unop %v on %T", instr.Op, x)
	return nil
}

func (fr *frame) binop(op token.Token, t types.Type, x, y Value, pos token.Pos) Value {
	p := fr.p
	switch op {
	case token.EQL:
		return p.eqValue(t, x, y)
	case token.NEQ:
		return Not(p.eqValue(t, x, y))
	}
	switch xv := x.(type) {
	case *Term:
		yv := y.(*Term)
		if xv.W == 0 {
			switch op {
			case token.AND, token.LAND:
				return And(xv, yv)
			case token.OR, token.LOR:
				return Or(xv, yv)
			}
			unsup("bool binop %v", op)
		}
		_, signed, _ := intInfo(t)
		switch op {
		case token.ADD:
			return Bin(OAdd, xv, yv)
		case token.SUB:
			return Bin(OSub, xv, yv)
		case token.MUL:
			return Bin(OMul, xv, yv)
		case token.QUO, token.REM:
			p.obligation(Not(Cmp(OEq, yv, BV(yv.W, 0))), "div", "div@"+fr.fn.String(), "integer divide by zero", fr, pos)
			if signed {
				if op == token.QUO {
					return Bin(OSDiv, xv, yv)
				}
				return Bin(OSRem, xv, yv)
			}
			if op == token.QUO {
				return Bin(OUDiv, xv, yv)
			}
			return Bin(OURem, xv, yv)
		case token.AND:
			return Bin(OAnd, xv, yv)
		case token.OR:
			return Bin(OOr, xv, yv)
		case token.XOR:
			return Bin(OXor, xv, yv)
		case token.AND_NOT:
			return Bin(OAnd, xv, BvNot(yv))
		case token.SHL, token.SHR:
			// shift count has its own width; saturate to x's width
			var cnt *Term
			if yv.W > xv.W {
				big := Cmp(OUle, BV(yv.W, uint64(xv.W)), yv)
				cnt = Ite(big, BV(xv.W, uint64(xv.W)&mask(xv.W)), Extract(yv, xv.W-1, 0))
				if xv.W < 8 {
					unsup("tiny shift width")
				}
			} else {
				cnt = ZExt(yv, xv.W)
			}
			if op == token.SHL {
				return Bin(OShl, xv, cnt)
			}
			if signed {
				return Bin(OAShr, xv, cnt)
			}
			return Bin(OLShr, xv, cnt)
		case token.LSS:
			if signed {
				return Cmp(OSlt, xv, yv)
			}
			return Cmp(OUlt, xv, yv)
		case token.LEQ:
			if signed {
				return Cmp(OSle, xv, yv)
			}
			return Cmp(OUle, xv, yv)
		case token.GTR:
			if signed {
				return Cmp(OSlt, yv, xv)
			}
			return Cmp(OUlt, yv, xv)
		case token.GEQ:
			if signed {
				return Cmp(OSle, yv, xv)
			}
			return Cmp(OUle, yv, xv)
		}
	case FloatVal:
		yv := y.(FloatVal)
		if xv.Sym || yv.Sym {
			switch op {
			case token.LSS, token.LEQ, token.GTR, token.GEQ:
				return p.havoc("float-compare", 0)
			}
			return FloatVal{Sym: true}
		}
		switch op {
		case token.ADD:
			return FloatVal{F: xv.F + yv.F}
		case token.SUB:
			return FloatVal{F: xv.F - yv.F}
		case token.MUL:
			return FloatVal{F: xv.F * yv.F}
		case token.QUO:
			return FloatVal{F: xv.F / yv.F}
		case token.LSS:
			return BoolT(xv.F < yv.F)
		case token.LEQ:
			return BoolT(xv.F <= yv.F)
		case token.GTR:
			return BoolT(xv.F > yv.F)
		case token.GEQ:
			return BoolT(xv.F >= yv.F)
		}
	case *StrVal:
		yv := y.(*StrVal)
		switch op {
		case token.ADD:
			if xv.Sym == nil && yv.Sym == nil {
				return mkStr(xv.S + yv.S)
			}
			ts := make([]*Term, 0, xv.Len()+yv.Len())
			for i := 0; i < xv.Len(); i++ {
				ts = append(ts, xv.At(i))
			}
			for i := 0; i < yv.Len(); i++ {
				ts = append(ts, yv.At(i))
			}
			return mkStrTerms(ts)
		case token.LSS, token.LEQ, token.GTR, token.GEQ:
			xs, ok1 := xv.Concrete()
			ys, ok2 := yv.Concrete()
			if ok1 && ok2 {
				switch op {
				case token.LSS:
					return BoolT(xs < ys)
				case token.LEQ:
					return BoolT(xs <= ys)
				case token.GTR:
					return BoolT(xs > ys)
				case token.GEQ:
					return BoolT(xs >= ys)
				}
			}
			unsup("symbolic string ordering")
		}
	}
	unsup("binop %v on %T (%v)", op, x, t)
	return nil
}

func strEq(a, b *StrVal) *Term {
	if a.Len() != b.Len() {
		return tFalse
	}
	if a.Sym == nil && b.Sym == nil {
		return BoolT(a.S == b.S)
	}
	r := tTrue
	for i := 0; i < a.Len(); i++ {
		r = And(r, Cmp(OEq, a.At(i), b.At(i)))
		if r == tFalse {
			return r
		}
	}
	return r
}

// eqValue returns a Bool term for x == y.
func (p *Path) eqValue(t types.Type, x, y Value) *Term {
	switch xv := x.(type) {
	case *Term:
		return Cmp(OEq, xv, y.(*Term))
	case FloatVal:
		yv := y.(FloatVal)
		if xv.Sym || yv.Sym {
			return p.havoc("float-eq", 0)
		}
		return BoolT(xv.F == yv.F)
	case *StrVal:
		return strEq(xv, y.(*StrVal))
	case *Value:
		return BoolT(xv == y.(*Value))
	case *MapObj:
		if y == nil {
			return BoolT(xv == nil)
		}
		return BoolT(xv == y.(*MapObj))
	case *ChanObj:
		return BoolT(xv == y.(*ChanObj))
	case SliceVal:
		// only comparison with nil is legal
		yv := y.(SliceVal)
		if yv.Nil && yv.Back == nil {
			return BoolT(xv.Nil)
		}
		return BoolT(yv.Nil == xv.Nil)
	case FuncNil:
		_, ok := y.(FuncNil)
		return BoolT(ok)
	case *ssa.Function, *Closure, *ssa.Builtin:
		_, ok := y.(FuncNil)
		return BoolT(!ok && false)
	case StructVal:
		yv := y.(StructVal)
		st := t.Underlying().(*types.Struct)
		r := tTrue
		for i := range xv {
			if st.Field(i).Name() == "_" {
				continue
			}
			r = And(r, p.eqValue(st.Field(i).Type(), xv[i], yv[i]))
		}
		return r
	case ArrayVal:
		yv := y.(ArrayVal)
		et := t.Underlying().(*types.Array).Elem()
		r := tTrue
		for i := range xv {
			r = And(r, p.eqValue(et, xv[i], yv[i]))
		}
		return r
	case IfaceVal:
		yv := y.(IfaceVal)
		if xv.T == nil || yv.T == nil {
			return BoolT(xv.T == nil && yv.T == nil)
		}
		if !types.Identical(xv.T, yv.T) {
			return tFalse
		}
		return p.eqValue(xv.T, xv.V, yv.V)
	case nil:
		return BoolT(y == nil)
	}
	unsup("eqValue on %T", x)
	return nil
}

func (fr *frame) conv(tdst, tsrc types.Type, x Value) Value {
	p := fr.p
	ud, us := tdst.Underlying(), tsrc.Underlying()
	if tp, ok := ud.(*types.TypeParam); ok {
		_ = tp
		unsup("conv to type param")
	}
	switch xv := x.(type) {
	case *Term:
		if dw, _, ok := intInfo(tdst); ok && dw > 0 {
			_, ssigned, _ := intInfo(tsrc)
			if xv.W == 0 {
				unsup("bool conv")
			}
			if dw <= xv.W {
				return Extract(xv, dw-1, 0)
			}
			if ssigned {
				return SExt(xv, dw)
			}
			return ZExt(xv, dw)
		}
		if isFloat(tdst) {
			if xv.IsConst() {
				_, ssigned, _ := intInfo(tsrc)
				if ssigned {
					return FloatVal{F: float64(sx(xv.Val, xv.W))}
				}
				return FloatVal{F: float64(xv.Val)}
			}
			p.havocs0("int-to-float")
			return FloatVal{Sym: true}
		}
		if isString(tdst) {
			// string(rune)
			if xv.IsConst() {
				return mkStr(string(rune(sx(xv.Val, xv.W))))
			}
			unsup("string(symbolic rune)")
		}
		if _, ok := ud.(*types.Pointer); ok { // uintptr->pointer
			unsup("int to pointer")
		}
	case FloatVal:
		if isFloat(tdst) {
			if b := ud.(*types.Basic); b.Kind() == types.Float32 && !xv.Sym {
				return FloatVal{F: float64(float32(xv.F))}
			}
			return xv
		}
		if dw, dsigned, ok := intInfo(tdst); ok && dw > 0 {
			if xv.Sym {
				return p.havoc("float-to-int", dw)
			}
			f := xv.F
			if math.IsNaN(f) || math.IsInf(f, 0) {
				return BV(dw, 1<<63)
			}
			if dsigned {
				return BV(dw, uint64(int64(f)))
			}
			return BV(dw, uint64(f))
		}
	case *StrVal:
		if isString(tdst) {
			return xv
		}
		if sl, ok := ud.(*types.Slice); ok {
			if b, ok := sl.Elem().Underlying().(*types.Basic); ok && b.Kind() == types.Uint8 {
				back := make([]Value, xv.Len())
				for i := range back {
					back[i] = xv.At(i)
				}
				return SliceVal{Back: back, N: len(back)}
			}
			unsup("string to []rune")
		}
	case SliceVal:
		if isString(tdst) {
			ts := make([]*Term, xv.N)
			for i := 0; i < xv.N; i++ {
				ts[i] = xv.Back[i].(*Term)
			}
			return mkStrTerms(ts)
		}
		if _, ok := ud.(*types.Slice); ok {
			return xv
		}
	case *Value:
		if _, ok := ud.(*types.Pointer); ok {
			return xv
		}
		if b, ok := ud.(*types.Basic); ok && b.Kind() == types.UnsafePointer {
			return xv
		}
	}
	unsup("conv %v <- %v (%T)", tdst, us, x)
	return nil
}

func (p *Path) havocs0(what string) {
	if p.havocs == nil {
		p.havocs = map[string]int{}
	}
	p.havocs[what]++
}

// ---- maps ----

func (p *Path) keyEq(kt types.Type, a, b Value) *Term { return p.eqValue(kt, a, b) }

func (p *Path) mapFind(m *MapObj, k Value) int {
	if m == nil {
		return -1
	}
	for i := range m.E {
		if p.branch(p.keyEq(m.KT, m.E[i].K, k)) {
			return i
		}
	}
	return -1
}

func (p *Path) mapSet(m *MapObj, k, v Value) {
	i := p.mapFind(m, k)
	if i >= 0 {
		m.E[i].V = copyVal(v)
		return
	}
	m.E = append(m.E, mapEntry{K: copyVal(k), V: copyVal(v)})
}

func (p *Path) mapDelete(m *MapObj, k Value) {
	i := p.mapFind(m, k)
	if i >= 0 {
		m.E = append(m.E[:i:i], m.E[i+1:]...)
	}
}

func (fr *frame) lookup(instr *ssa.Lookup) Value {
	p := fr.p
	x := fr.get(instr.X)
	switch x := x.(type) {
	case *MapObj:
		k := fr.get(instr.Index)
		i := p.mapFind(x, k)
		var v Value
		if i >= 0 {
			v = copyVal(x.E[i].V)
		} else {
			v = zero(instr.X.Type().Underlying().(*types.Map).Elem())
		}
		if instr.CommaOk {
			return TupleVal{v, BoolT(i >= 0)}
		}
		return v
	case *StrVal:
		idx := fr.get(instr.Index).(*Term)
		i := fr.boundsIdx(idx, instr.Index.Type(), x.Len(), instr.Pos())
		return x.At(i)
	}
	panic(fmt.Sprintf("lookup on %T", x))
}

// ---- range ----

type iterator interface{ next(fr *frame) Value }

type mapIter struct {
	snap []mapEntry
	i    int
}

func (it *mapIter) next(fr *frame) Value {
	if it.i >= len(it.snap) {
		return TupleVal{tFalse, nil, nil}
	}
	e := it.snap[it.i]
	it.i++
	return TupleVal{tTrue, copyVal(e.K), copyVal(e.V)}
}

type strIter struct {
	s *StrVal
	i int
}

func (it *strIter) next(fr *frame) Value {
	if it.i >= it.s.Len() {
		return TupleVal{tFalse, BV(64, 0), BV(32, 0)}
	}
	c, ok := it.s.Concrete()
	if !ok {
		unsup("range over symbolic string")
	}
	for j, r := range c[it.i:] {
		_ = j
		idx := it.i
		it.i += len(string(r))
		return TupleVal{tTrue, BV(64, uint64(idx)), BV(32, uint64(r))}
	}
	return TupleVal{tFalse, BV(64, 0), BV(32, 0)}
}

func (fr *frame) rangeIter(instr *ssa.Range, x Value) Value {
	switch x := x.(type) {
	case *MapObj:
		it := &mapIter{}
		if x != nil {
			it.snap = append(it.snap, x.E...)
		}
		return it
	case *StrVal:
		return &strIter{s: x}
	}
	panic(fmt.Sprintf("range over %T", x))
}

// ---- builtins ----

func (p *Path) callBuiltin(caller *frame, pos token.Pos, fn *ssa.Builtin, args []Value) Value {
	switch fn.Name() {
	case "append":
		if len(args) == 1 {
			return args[0]
		}
		dst := args[0].(SliceVal)
		var src []Value
		switch s := args[1].(type) {
		case SliceVal:
			src = s.Back[:s.N]
		case *StrVal:
			src = make([]Value, s.Len())
			for i := range src {
				src[i] = s.At(i)
			}
		}
		if len(src) == 0 {
			return dst
		}
		if dst.N+len(src) <= len(dst.Back) {
			for i, v := range src {
				dst.Back[dst.N+i] = copyVal(v)
			}
			return SliceVal{Back: dst.Back, N: dst.N + len(src)}
		}
		ncap := 2 * len(dst.Back)
		if ncap < dst.N+len(src) {
			ncap = dst.N + len(src)
		}
		nb := make([]Value, ncap)
		copy(nb, dst.Back[:dst.N])
		for i, v := range src {
			nb[dst.N+i] = copyVal(v)
		}
		et := fn.Type().(*types.Signature).Params().At(0).Type().Underlying().(*types.Slice).Elem()
		fillZero(nb[dst.N+len(src):], et)
		return SliceVal{Back: nb, N: dst.N + len(src)}
	case "copy":
		dst := args[0].(SliceVal)
		var src []Value
		switch s := args[1].(type) {
		case SliceVal:
			src = s.Back[:s.N]
		case *StrVal:
			src = make([]Value, s.Len())
			for i := range src {
				src[i] = s.At(i)
			}
		}
		n := dst.N
		if len(src) < n {
			n = len(src)
		}
		tmp := make([]Value, n)
		for i := 0; i < n; i++ {
			tmp[i] = copyVal(src[i])
		}
		copy(dst.Back[:n], tmp)
		return BV(64, uint64(n))
	case "len":
		switch x := args[0].(type) {
		case *StrVal:
			return BV(64, uint64(x.Len()))
		case SliceVal:
			return BV(64, uint64(x.N))
		case ArrayVal:
			return BV(64, uint64(len(x)))
		case *Value:
			return BV(64, uint64(len((*x).(ArrayVal))))
		case *MapObj:
			if x == nil {
				return BV(64, 0)
			}
			return BV(64, uint64(len(x.E)))
		case *ChanObj:
			if x == nil {
				return BV(64, 0)
			}
			return BV(64, uint64(len(x.Buf)))
		}
	case "cap":
		switch x := args[0].(type) {
		case SliceVal:
			return BV(64, uint64(len(x.Back)))
		case ArrayVal:
			return BV(64, uint64(len(x)))
		case *Value:
			return BV(64, uint64(len((*x).(ArrayVal))))
		case *ChanObj:
			if x == nil {
				return BV(64, 0)
			}
			return BV(64, uint64(x.Cap))
		}
	case "delete":
		m := args[0].(*MapObj)
		if m != nil {
			p.mapDelete(m, args[1])
		}
		return nil
	case "close":
		p.chanClose(caller, args[0].(*ChanObj), pos)
		return nil
	case "panic":
		panic(targetPanic{v: args[0], pos: p.posStr(pos), fn: fnName(caller)})
	case "recover":
		if caller != nil && caller.caller != nil && caller.caller.panicking {
			fr := caller.caller
			fr.panicking = false
			if tp, ok := fr.panicVal.(targetPanic); ok {
				if iv, ok := tp.v.(IfaceVal); ok {
					return iv
				}
			}
			return IfaceVal{T: types.Typ[types.String], V: mkStr("recovered")}
		}
		return IfaceVal{}
	case "print", "println":
		return nil
	case "min", "max":
		r := args[0]
		for _, a := range args[1:] {
			at, ok1 := a.(*Term)
			rt, ok2 := r.(*Term)
			if !ok1 || !ok2 {
				af, rf := a.(FloatVal), r.(FloatVal)
				if af.Sym || rf.Sym {
					r = FloatVal{Sym: true}
					continue
				}
				if fn.Name() == "min" {
					r = FloatVal{F: math.Min(af.F, rf.F)}
				} else {
					r = FloatVal{F: math.Max(af.F, rf.F)}
				}
				continue
			}
			_, signed, _ := intInfo(fn.Type().(*types.Signature).Params().At(0).Type())
			var lt *Term
			if signed {
				lt = Cmp(OSlt, at, rt)
			} else {
				lt = Cmp(OUlt, at, rt)
			}
			if fn.Name() == "min" {
				r = Ite(lt, at, rt)
			} else {
				r = Ite(lt, rt, at)
			}
		}
		return r
	case "clear":
		switch x := args[0].(type) {
		case *MapObj:
			if x != nil {
				x.E = nil
			}
		}
		return nil
	case "ssa:wrapnilchk":
		recv := args[0]
		if pv, ok := recv.(*Value); ok && pv == nil {
			p.obligation(tFalse, "nil", "nilwrap@"+fnName(caller), "value method called via nil pointer", caller, pos)
		}
		return recv
	}
	unsup("builtin %s on %T", fn.Name(), args[0])
	return nil
}
