#!/bin/bash
# usage (inside `vp run --with-repo`): tools/falsealarm_run.sh "<refactor ids>" "<properties>"
# applies each behaviour-preserving refactor set to the run's own snapshot of /repo and runs the listed quick checks
# against it (VERIF_REPO), printing one line per (set, property). Nothing in /repo or /verif is touched.
sets="$1"; props="$2"
for i in $sets; do
  (cd "$VP_RUN_REPO" && git checkout -q -- . && git apply --whitespace=nowarn /verif/seeded/refactor-$i/patch.diff) || { echo "refactor-$i does not apply"; continue; }
  for p in $props; do
    out=$(VERIF_REPO="$VP_RUN_REPO" ./check $p quick 2>&1 | grep -v "^WARNING")
    echo "refactor-$i $p: $(echo "$out" | tail -1 | cut -c1-160)"
    echo "$out" | grep -E "^(VIOLATION|INCONCLUSIVE)" | cut -c1-260
  done
done
(cd "$VP_RUN_REPO" && git checkout -q -- .)
