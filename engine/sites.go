package main

// Structural premise of C15: enumerate, from the SSA of package memberlist, every instruction that
// hands bytes to a transport (WriteTo / WriteToAddress on an interface) or to a stream
// (Write on a net.Conn, or a net.Conn converted to an interface with a Write method).

import (
	"encoding/json"
	"go/types"
	"os"
	"sort"
	"strings"

	"golang.org/x/tools/go/ssa"
	"golang.org/x/tools/go/ssa/ssautil"
)

type sendSite struct {
	Caller string `json:"caller"`
	What   string `json:"what"`
	Recv   string `json:"recv"`
	Pos    string `json:"pos"`
}

func isNetConn(t types.Type) bool {
	s := types.TypeString(t, nil)
	return s == "net.Conn" || strings.HasSuffix(s, "peekedConn")
}

func hasWrite(t types.Type) bool {
	it, ok := t.Underlying().(*types.Interface)
	if !ok {
		return false
	}
	for i := 0; i < it.NumMethods(); i++ {
		if it.Method(i).Name() == "Write" {
			return true
		}
	}
	return false
}

func listSendSites(prog *ssa.Program, pkg *ssa.Package) {
	var out []sendSite
	for fn := range ssautil.AllFunctions(prog) {
		if fn.Pkg != pkg && !(fn.Parent() != nil && rootPkg(fn) == pkg) {
			continue
		}
		if fn.Pos().IsValid() {
			f := prog.Fset.Position(fn.Pos()).Filename
			if strings.HasSuffix(f, "_test.go") || strings.Contains(f, "zz_verif_") || strings.HasSuffix(f, "mock_transport.go") || strings.HasSuffix(f, "net_transport.go") {
				continue
			}
		}
		for _, b := range fn.Blocks {
			for _, in := range b.Instrs {
				switch x := in.(type) {
				case ssa.CallInstruction:
					c := x.Common()
					if !c.IsInvoke() {
						continue
					}
					name := c.Method.Name()
					rt := c.Value.Type()
					if name == "WriteTo" || name == "WriteToAddress" {
						rs := types.TypeString(rt, nil)
						if strings.Contains(rs, "Transport") {
							out = append(out, sendSite{fn.String(), "transport." + name, rs, posOf(prog, in)})
						}
					}
					if name == "Write" && isNetConn(rt) {
						out = append(out, sendSite{fn.String(), "conn.Write", types.TypeString(rt, nil), posOf(prog, in)})
					}
				case *ssa.ChangeInterface:
					if isNetConn(x.X.Type()) && !isNetConn(x.Type()) && hasWrite(x.Type()) {
						out = append(out, sendSite{fn.String(), "conn-as-writer", types.TypeString(x.Type(), nil), posOf(prog, in)})
					}
				case *ssa.MakeInterface:
					if strings.HasSuffix(types.TypeString(x.X.Type(), nil), "peekedConn") && !isNetConn(x.Type()) && hasWrite(x.Type()) {
						out = append(out, sendSite{fn.String(), "conn-as-writer", types.TypeString(x.Type(), nil), posOf(prog, in)})
					}
				}
			}
		}
	}
	sort.Slice(out, func(i, j int) bool { return out[i].Caller+out[i].What < out[j].Caller+out[j].What })
	enc := json.NewEncoder(os.Stdout)
	enc.SetIndent("", " ")
	enc.Encode(out)
}

func rootPkg(fn *ssa.Function) *ssa.Package {
	for f := fn; f != nil; f = f.Parent() {
		if f.Pkg != nil {
			return f.Pkg
		}
	}
	return nil
}

func posOf(prog *ssa.Program, in ssa.Instruction) string {
	p := prog.Fset.Position(in.Pos())
	f := p.Filename
	if i := strings.LastIndex(f, "/"); i >= 0 {
		f = f[i+1:]
	}
	return f
}
