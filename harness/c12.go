package memberlist

import (
	"io"
	"time"
)

func init() {
	vRegister("H_C12_Packet", H_C12_Packet)
	vRegister("H_C12_Stream", H_C12_Stream)
	vRegister("H_C12_PushPullState", H_C12_PushPullState)
	vRegister("H_C12_GossipCompound", H_C12_GossipCompound)
}

type vNetCfg struct {
	enc      int // 0 off, 1 = encryption version 0 (protocol 1), 2 = encryption version 1
	label    string
	compress bool
	crc      bool
	key      []byte
}

func vPickNetCfg() *vNetCfg {
	c := &vNetCfg{enc: vPick(3), compress: vPick(2) == 1, crc: vPick(2) == 1}
	c.label = string(vBytes(vPick(3)))
	if c.enc != 0 {
		c.key = vBytes([]int{16, 32}[vPick(1+vTier())])
	}
	return c
}

func (c *vNetCfg) apply(conf *Config) {
	conf.Label = c.label
	conf.EnableCompression = c.compress
	if c.enc == 1 {
		conf.ProtocolVersion = 1
	}
	if c.enc != 0 {
		kr, err := NewKeyring(nil, c.key)
		vAssert(err == nil, "cfg.keyring")
		conf.Keyring = kr
	}
}

func (c *vNetCfg) peer() *Node {
	n := &Node{Name: vPeerA, Addr: []byte{10, 0, 0, 2}, Port: 7946, PMin: 1, PMax: 2, PCur: 2}
	if c.crc {
		n.PMax = 5
	}
	return n
}

var vPayloadLens = []int{0, 1, 10, 15, 16}

// C12 packet path: whatever the sender's pipeline does, the receiver's handlers see the same message.
func H_C12_Packet() {
	c := vPickNetCfg()
	ca, cb := vBaseConfig(), vBaseConfig()
	cb.Name = vPeerA
	c.apply(ca)
	c.apply(cb)
	fa, fb := vNewML(ca), vNewML(cb)
	fb.vAddSelfNamed(vPeerA)
	to := Address{Addr: "10.0.0.2:7946", Name: vPeerA}
	from := vAddr("10.0.0.1:7946")
	kind := vPick(2)
	var msg, payload []byte
	var sent alive
	if kind == 0 {
		var n int
		if vTier() == 1 {
			n = vPick(34)
		} else {
			n = vPayloadLens[vPick(len(vPayloadLens))]
		}
		payload = vBytes(n)
		msg = append([]byte{byte(userMsg)}, payload...)
	} else {
		sent = alive{Incarnation: 1 + vU32()%1000, Node: vPeerB, Addr: vBytes(4), Port: 1 + vU16()%1000, Meta: vBytes(vPick(3)), Vsn: []uint8{1, 5, 2, 0, 0, 0}}
		buf, err := encode(aliveMsg, &sent, false)
		vAssert(err == nil, "c12.pkt.encode")
		msg = buf.Bytes()
	}
	orig := append([]byte(nil), msg...)

	err := fa.m.rawSendMsgPacket(to, c.peer(), msg)
	vAssert(err == nil, "c12.pkt.send-ok")
	vAssert(len(fa.tr.packets) == 1, "c12.pkt.one-packet")
	if len(fa.tr.packets) != 1 {
		return
	}
	wire := fa.tr.packets[0]
	if !c.compress {
		plain := len(orig)
		if c.crc {
			plain += 5
		}
		want := plain
		if c.enc != 0 {
			want = encryptedLength(encryptionVersion(c.enc-1), plain)
		}
		vAssert(len(wire) == labelOverhead(c.label)+want, "c12.pkt.wire-length")
	}

	fb.m.ingestPacket(wire, from, time.Time{})

	h, ok := fb.m.getNextMessage()
	vAssert(ok, "c12.pkt.delivered")
	if !ok {
		return
	}
	vAssert(h.msgType == messageType(orig[0]), "c12.pkt.type")
	vAssert(vEqBytes(h.buf, orig[1:]), "c12.pkt.bytes")
	_, more := fb.m.getNextMessage()
	vAssert(!more, "c12.pkt.exactly-one")
	if kind == 0 {
		fb.del = &vDelegateRec{}
		cb.Delegate = fb.del
		fb.m.handleUser(h.buf, from)
		vAssert(len(fb.del.msgs) == 1 && vEqBytes(fb.del.msgs[0], payload), "c12.pkt.user-payload")
		vCover("c12.pkt.user")
	} else {
		fb.m.handleAlive(h.buf, from)
		ns := fb.m.nodeMap[vPeerB]
		vAssert(ns != nil, "c12.pkt.alive-applied")
		if ns != nil {
			wantPort := sent.Port
			if cb.ProtocolVersion < 2 {
				wantPort = uint16(cb.BindPort) // protocol 1 carries no port: the receiver substitutes its own
			}
			vAssert(ns.Incarnation == sent.Incarnation && ns.Port == wantPort && vEqBytes(ns.Addr, sent.Addr) && vEqBytes(ns.Meta, sent.Meta), "c12.pkt.alive-fields")
		}
		vCover("c12.pkt.alive")
	}
}

// C12 stream path: label header, encryption envelope and compression are undone exactly.
func H_C12_Stream() {
	c := vPickNetCfg()
	ca, cb := vBaseConfig(), vBaseConfig()
	cb.Name = vPeerA
	c.apply(ca)
	c.apply(cb)
	fa, fb := vNewML(ca), vNewML(cb)
	fb.vAddSelfNamed(vPeerA)
	frag := vPick(3)
	if vPick(2) == 0 {
		// raw envelope round trip
		var n int
		if vTier() == 1 {
			n = vPick(34)
		} else {
			n = vPayloadLens[vPick(len(vPayloadLens))]
		}
		sendBuf := append([]byte{vU8()}, vBytes(n)...)
		// a first byte equal to encryptMsg/compressMsg would be a different (nested) message
		vAssume(sendBuf[0] != byte(encryptMsg) && sendBuf[0] != byte(compressMsg) && sendBuf[0] != byte(hasLabelMsg))
		orig := append([]byte(nil), sendBuf...)
		wire := &vConn{}
		vAssert(AddLabelHeaderToStream(wire, c.label) == nil, "c12.str.label-ok")
		vAssert(fa.m.rawSendMsgStream(wire, sendBuf, c.label) == nil, "c12.str.send-ok")
		rc := &vConn{in: wire.out, frag: frag}
		conn, lbl, err := RemoveLabelHeaderFromStream(rc)
		vAssert(err == nil, "c12.str.label-removed")
		if err != nil {
			return
		}
		vAssert(vEqStr(lbl, c.label), "c12.str.label")
		mt, r, _, err := fb.m.readStream(conn, lbl)
		vAssert(err == nil, "c12.str.read-ok")
		if err != nil {
			return
		}
		vAssert(mt == messageType(orig[0]), "c12.str.type")
		rest, rerr := io.ReadAll(r)
		vAssert(rerr == nil && vEqBytes(rest, orig[1:]), "c12.str.bytes")
		vCover("c12.str.raw")
		return
	}
	// reliable user message end to end
	payload := vBytes(1 + vPick(3))
	out := &vConn{}
	fa.tr.conn = out
	vAssert(fa.m.sendUserMsg(Address{Addr: "10.0.0.2:7946", Name: vPeerA}, payload) == nil, "c12.str.user-send-ok")
	vAssert(out.closed == 1, "c12.str.sender-closes")
	fb.del = &vDelegateRec{}
	cb.Delegate = fb.del
	in := &vConn{in: out.out, frag: frag}
	fb.m.handleConn(in)
	vAssert(len(fb.del.msgs) == 1 && vEqBytes(fb.del.msgs[0], payload), "c12.str.user-payload")
	vAssert(in.closed == 1, "c12.str.receiver-closes")
	vAssert(len(in.out) == 0, "c12.str.no-error-reply")
	vCover("c12.str.user")
}

// C12: push/pull state (node records + delegate user state) reaches the peer's delegate complete and unmodified,
// under every pipeline configuration and however the stream is fragmented.
func H_C12_PushPullState() {
	c := vPickNetCfg()
	ca, cb := vBaseConfig(), vBaseConfig()
	cb.Name = vPeerA
	c.apply(ca)
	c.apply(cb)
	fa, fb := vNewML(ca), vNewML(cb)
	fa.vAddSelf(3, vBytes(1))
	fa.m.nodeMap[vSelf].PCur = ca.ProtocolVersion
	fb.vAddSelfNamed(vPeerA)
	state := vBytes(1 + vPick(5))
	fa.del = &vDelegateRec{localState: state}
	ca.Delegate = fa.del
	fb.del = &vDelegateRec{}
	cb.Delegate = fb.del
	wire := &vConn{}
	vAssert(AddLabelHeaderToStream(wire, c.label) == nil, "c12.pp.label")
	join := vBool()
	vAssert(fa.m.sendLocalState(wire, join, c.label) == nil, "c12.pp.send-ok")
	in := &vConn{in: wire.out, frag: []int{0, 1, 3}[vPick(3)]}
	fb.m.handleConn(in)
	vAssert(len(fb.del.merged) == 1, "c12.pp.user-state-delivered")
	if len(fb.del.merged) == 1 {
		vAssert(vEqBytes(fb.del.merged[0], state), "c12.pp.user-state-intact")
		vAssert(fb.del.mergeJoin[0] == join, "c12.pp.join-flag")
	}
	ns := fb.m.nodeMap[vSelf]
	vAssert(ns != nil && ns.State == StateAlive && ns.Incarnation == 3, "c12.pp.node-record")
	if ns != nil {
		vAssert(vEqBytes(ns.Meta, fa.m.nodeMap[vSelf].Meta), "c12.pp.meta")
	}
	vCover("c12.pp")
}

// C12: several gossiped messages of very different sizes (one of them longer than 255 bytes) packed into one
// packet reach the peer's handlers byte for byte, under every pipeline configuration.
func H_C12_GossipCompound() {
	vOpt("hostile-budget", 1) // mis-framed parts fall into the garbage decoders; one such decode per path is enough to see the loss
	c := vPickNetCfg()
	ca, cb := vBaseConfig(), vBaseConfig()
	cb.Name = vPeerA
	c.apply(ca)
	c.apply(cb)
	ca.GossipNodes = 1
	fa, fb := vNewML(ca), vNewML(cb)
	fa.vAddSelf(3, nil)
	fa.vAddConcreteAlive(vPeerA, 2).PMax = c.peer().PMax
	fb.vAddSelfNamed(vPeerA)
	big := []int{255, 256, 300}[vPick(3)]
	msgs := [][]byte{vBytes(2), make([]byte, big), vBytes(1)}
	msgs[1][0], msgs[1][big-1] = vU8(), vU8()
	fa.del = &vDelegateRec{bcast: msgs}
	ca.Delegate = fa.del
	fa.m.gossip()
	vAssert(len(fa.tr.packets) == 1, "c12.gossip.one-packet")
	if len(fa.tr.packets) != 1 {
		return
	}
	fb.m.ingestPacket(fa.tr.packets[0], vAddr("10.0.0.1:7946"), time.Time{})
	// LIFO handoff: the three user messages come back in reverse order
	for i := 2; i >= 0; i-- {
		h, ok := fb.m.getNextMessage()
		vAssert(ok && h.msgType == userMsg, "c12.gossip.delivered")
		if ok {
			vAssert(vEqBytes(h.buf, msgs[i]), "c12.gossip.payload-intact")
		}
	}
	_, more := fb.m.getNextMessage()
	vAssert(!more, "c12.gossip.nothing-else")
	vCover("c12.gossip")
}

// C12 during an encryption roll-out (the documented stages: install the key with GossipVerifyIncoming/Outgoing off,
// then turn outgoing on, then incoming): a receiver that holds a key but does not insist on encryption, or holds
// no key at all, still recovers every message of a sender that is at any compatible stage - also protocol
// messages whose type byte (ping = 0, indirect ping = 1) looks like an encryption version and that are long enough
// to pass for ciphertext.
func H_C12_Transition() {
	vOpt("enclen", []int{3, 48, 64}[vPick(3)]) // encoded size of the message body: short, and long enough to look sealed
	key := vBytes(16)
	sender := vPick(3)   // 0 no key, 1 key installed but still sending plaintext, 2 sealing
	receiver := vPick(2) // 0 no key, 1 key installed, plaintext still accepted
	vAssume(receiver == 1 || sender != 2)
	ca, cb := vBaseConfig(), vBaseConfig()
	cb.Name = vPeerA
	label := string(vBytes(vPick(2)))
	ca.Label, cb.Label = label, label
	if sender >= 1 {
		kr, _ := NewKeyring(nil, key)
		ca.Keyring = kr
		ca.GossipVerifyOutgoing = sender == 2
	}
	if receiver == 1 {
		kr, _ := NewKeyring(nil, key)
		cb.Keyring = kr
		cb.GossipVerifyIncoming = false
		cb.GossipVerifyOutgoing = vBool()
	}
	fa, fb := vNewML(ca), vNewML(cb)
	fb.vAddSelfNamed(vPeerA)
	fb.vAddConcreteAlive(vPeerB, 3)
	to := Address{Addr: "10.0.0.2:7946", Name: vPeerA}
	from := vAddr("10.0.0.1:7946")
	peer := &Node{Name: vPeerA, Addr: []byte{10, 0, 0, 2}, Port: 7946, PMin: 1, PMax: []uint8{2, 5}[vPick(2)], PCur: 2}
	kind := vPick(3)
	var msg []byte
	switch kind {
	case 0:
		b, err := encode(pingMsg, &ping{SeqNo: vU32(), Node: vPeerA, SourceAddr: []byte{10, 0, 0, 1}, SourcePort: 7946, SourceNode: vSelf}, false)
		vAssert(err == nil, "c12.transition.encode")
		msg = b.Bytes()
	case 1:
		b, err := encode(indirectPingMsg, &indirectPingReq{SeqNo: vU32(), Target: []byte{10, 0, 0, 3}, Port: 7946, Node: vPeerB, SourceAddr: []byte{10, 0, 0, 1}, SourcePort: 7946, SourceNode: vSelf}, false)
		vAssert(err == nil, "c12.transition.encode")
		msg = b.Bytes()
	default:
		msg = append([]byte{byte(userMsg)}, vBytes([]int{1, 60}[vPick(2)])...)
	}
	vAssert(fa.m.rawSendMsgPacket(to, peer, msg) == nil, "c12.transition.send-ok")
	vAssert(len(fa.tr.packets) == 1, "c12.transition.one-packet")
	if len(fa.tr.packets) != 1 {
		return
	}
	fb.m.ingestPacket(fa.tr.packets[0], from, vNow())
	switch kind {
	case 0:
		vAssert(len(fb.tr.packets) == 1, "c12.transition.ping-answered")
		vCover("c12.transition.ping")
	case 1:
		vAssert(len(fb.tr.packets) == 1, "c12.transition.indirect-ping-relayed")
		vCover("c12.transition.indirect")
	default:
		h, ok := fb.m.getNextMessage()
		vAssert(ok, "c12.transition.user-delivered")
		if ok {
			vAssert(vEqBytes(h.buf, msg[1:]), "c12.transition.user-bytes")
		}
		vCover("c12.transition.user")
	}
	vAdvance(2 * time.Second) // the relay's own timers run out
}

func init() { vRegister("H_C12_Transition", H_C12_Transition) }
