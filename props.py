# Per-property check configuration for ./check (entries = harness entry functions in /verif/harness).
PROPS = {
    "C09": {
        "quick": {"entries": ["H_C09_VerifyProtocol", "H_C09_Merge", "H_C09_Truncated"]},
        "thorough": {"entries": ["H_C09_VerifyProtocol", "H_C09_Merge", "H_C09_Truncated"], "opts": {"maxpaths": 3000000}},
        "covers": {"H_C09_VerifyProtocol": ["c09.verify"], "H_C09_Merge": ["c09.merge.rejected", "c09.merge.accepted", "c09.merge.hearsay", "c09.merge.joined"], "H_C09_Truncated": ["c09.trunc.cut", "c09.trunc.intact"]},
        "bounds": {"verifyProtocol": "1-2 local records x 1-2 (thorough 3) remote entries, all six version bytes and states symbolic, Vsn length in {0,5,6}", "merge": "1 (thorough 2) arbitrary remote entries over names {n0,n1,n2}; join/veto/user-state symbolic", "truncation": "every cut point of a real 1-node push/pull stream, 2 fragmentations"},
        "outside": ["msgpack bytes (token model)", "encrypted / compressed / labelled streams are C12-C16", "Join()'s address resolution and dialing"],
        "assumptions": [],
    },
    "C17": {
        "quick": {"entries": ["H_C17_Sequence", "H_C17_Rotation"]},
        "thorough": {"entries": ["H_C17_Sequence", "H_C17_Rotation"], "opts": {"maxpaths": 2000000}},
        "covers": {"H_C17_Sequence": ["c17.sequence", "c17.new.rejected"], "H_C17_Rotation": ["c17.rotation"]},
        "bounds": {"keys": "3 distinct symbolic 16-byte keys + one 15-byte key", "ops": "3 (quick) / 4 (thorough) of Add/Use/Remove/GetKeys/GetPrimaryKey after NewKeyring in 4 shapes", "rotation": "2 nodes, every reachable pair of phase positions"},
        "outside": ["the data race itself (its cause, the in-place rewrite of a returned key list, is asserted)", "24/32-byte keys (length validation is concrete code)"],
        "assumptions": [],
    },
    "C10": {
        "quick": {"entries": ["H_C10_Sequence"], "opts": {"maxpaths": 400000}},
        "thorough": {"entries": ["H_C10_Sequence"], "opts": {"maxpaths": 3000000}},
        "covers": {"H_C10_Sequence": ["c10.sequence"]},
        "bounds": {"sequence_length": 4, "alphabet": "quick: queue x / queue y / queue unique(2B) / get(overhead 2, NumNodes in {0,9,99}, limit symbolic 0..9) / prune(0|1) / reset; thorough: + unique(1B), plain(group), get(overhead 0)", "RetransmitMult": "{1,2}"},
        "outside": ["message lengths are concrete per operation variant (1 or 2 bytes): lengths are enumerated, the byte limit is the symbolic quantity", "btree internals are executed from their real SSA (not stubbed)"],
        "assumptions": [],
    },
    "C02": {
        "quick": {"entries": ["H_C02_Refute", "H_C02_SelfAnnounce"]},
        "thorough": {"entries": ["H_C02_Refute", "H_C02_SelfAnnounce"]},
        "covers": {"H_C02_Refute": ["c02.refuted", "c02.ignored"], "H_C02_SelfAnnounce": ["c02.announce"]},
        "bounds": {"steps": "1 accusation from an arbitrary state (inductive); carriers: direct call and one-entry push/pull"},
        "outside": ["accusations at incarnation 2^32-1 (excluded by the statement)", "alive claims about the local name from a different address (conflict branch, C08)", "UpdateNode's wait for the gossip goroutine"],
        "assumptions": ["local record Alive, its Incarnation <= m.incarnation <= Incarnation+2"],
    },
    "C06": {
        "quick": {"entries": ["H_C06_Schedule", "H_C06_StateLevel"]},
        "thorough": {"entries": ["H_C06_Schedule", "H_C06_StateLevel"]},
        "covers": {"H_C06_Schedule": ["c06.sched"], "H_C06_StateLevel": ["c06.state.expiry", "c06.state.stale", "c06.state.override"]},
        "bounds": {"k": "0..3", "confirmations": "2 (quick) / 3 (thorough) from 4 names incl. the accuser", "min_max": "{(2s,12s),(0.5s,30s),(1s,1s)} concrete", "gaps": "symbolic 0..40s each", "cluster_size": "{1,2,3,5,10,100}", "SuspicionMult": "{2,4,6}"},
        "outside": ["float64 schedule for symbolic min/max (floats are concrete here because min/max/k are picked from concrete sets)", "real timer jitter"],
        "assumptions": ["virtual time: code takes zero time; timers fire no earlier than their deadline"],
    },
    "C07": {
        "quick": {"entries": ["H_C07_Step", "H_C07_TimerReset"]},
        "thorough": {"entries": ["H_C07_Step", "H_C07_TimerReset"]},
        "covers": {"H_C07_Step": ["c07.join", "c07.leave", "c07.update", "c07.quiet"], "H_C07_TimerReset": ["c07.timer-reset"]},
        "bounds": {"steps": "1 claim from an arbitrary state (inductive) + suspicion/timeout/stale-timeout/reap script"},
        "outside": ["version-vector-only changes", "delegate re-entrancy"],
        "assumptions": ["representation invariant as in C01"],
    },
    "C08": {
        "quick": {"entries": ["H_C08_Leave", "H_C08_PeerLeave", "H_C08_AddrTable"]},
        "thorough": {"entries": ["H_C08_Leave", "H_C08_PeerLeave", "H_C08_AddrTable"]},
        "covers": {"H_C08_Leave": ["c08.leave"], "H_C08_PeerLeave": ["c08.peer"], "H_C08_AddrTable": ["c08.addr.filtered", "c08.addr.reclaimed", "c08.addr.conflict"]},
        "bounds": {"steps": "Leave; alive-after-leave; second Leave / peer: leave then one in-flight alive then one suspect / address table: 1 step"},
        "outside": ["Leave racing a concurrent accusation (schedule-level, see DESIGN.md)", "delivery to at least one live peer (needs the gossip goroutine)"],
        "assumptions": [],
    },
    "C18": {
        "quick": {"entries": ["H_C18_Admission"]},
        "thorough": {"entries": ["H_C18_Admission"]},
        "covers": {"H_C18_Admission": ["c18.bad-source", "c18.disallowed-claim", "c18.allowed-claim"]},
        "bounds": {"allowlist": "{10.1.0.0/16} or {10.1.0.0/16, fd00::/8}", "claimed address length": "{0,4,5,16} symbolic bytes", "carriers": "handleAlive from allowed / disallowed v4 / disallowed v6 source, push/pull entry"},
        "outside": ["string parsing of the packet source address (concrete sources)", "empty allowlist = not configured"],
        "assumptions": ["every address already in the table is allowed (invariant, re-established by the step)"],
    },
    "C01": {
        "quick": {"entries": ["H_C01_Step"]},
        "thorough": {"entries": ["H_C01_Step"]},
        "covers": {"H_C01_Step": ["c01.older", "c01.equal", "c01.newer"]},
        "bounds": {"names": 3, "meta_len": "0..1", "steps": "1 (inductive from an arbitrary state satisfying the representation invariant)"},
        "outside": ["metrics", "msgpack bytes (token model)", "accusations at incarnation 2^32-1 about the local node (excluded by C02's statement)"],
        "assumptions": ["representation invariant: Suspect record <=> suspicion timer exists; local record Alive with Incarnation == m.incarnation"],
    },
    "C11": {
        "quick": {"entries": ["H_C11_CompoundRoundTrip", "H_C11_DecodeHostile"]},
        "thorough": {"entries": ["H_C11_CompoundRoundTrip", "H_C11_DecodeHostile"]},
        "covers": {"H_C11_CompoundRoundTrip": ["c11.rt.done"], "H_C11_DecodeHostile": ["c11.hostile.ok", "c11.hostile.err"]},
        "bounds": {"parts": "0..3", "part_len": "0..3", "hostile_len": "0..8"},
        "outside": [],
        "assumptions": [],
    },
    "C16": {
        "quick": {"entries": ["H_C16_PacketRoundTrip"]},
        "thorough": {"entries": ["H_C16_PacketRoundTrip"]},
        "covers": {"H_C16_PacketRoundTrip": ["c16.pkt.roundtrip"]},
        "bounds": {"label_len": "{1,2,16,254,255}", "payload_len": "0..3"},
    },
}

NOT_APPLICABLE = {
    "C05": "probabilistic whole-cluster liveness over arbitrary fault histories; no bounded symbolic encoding of the real code decides it and the order-insensitivity step lemma is false for memberlist (DESIGN.md §4 C05)",
}
LEVEL_TEXT = {}
