package main

// One persistent solver process (z3 -in, z3-new -in or cvc5 --incremental).
// Protocol per path: (reset); declarations and path-condition assertions at
// base level; each query is (push) (assert extra) (check-sat) [(get-value)] (pop).

import (
	"bufio"
	"fmt"
	"io"
	"os/exec"
	"strconv"
	"strings"
	"time"
)

type Solver struct {
	name    string
	cmd     *exec.Cmd
	in      io.WriteCloser
	out     *bufio.Reader
	em      emitter
	vars    []*Term // declared in this session, in order
	varSet  map[string]bool
	Queries int
	Time    time.Duration
	timeout int // ms
	log     io.Writer
	ErrSeen string
}

func NewSolver(kind string, timeoutMs int) (*Solver, error) {
	var cmd *exec.Cmd
	switch kind {
	case "z3":
		cmd = exec.Command("/usr/bin/z3", "-in", fmt.Sprintf("-t:%d", timeoutMs))
	case "z3-new":
		cmd = exec.Command("z3-new", "-in", fmt.Sprintf("-t:%d", timeoutMs))
	case "cvc5":
		cmd = exec.Command("cvc5", "--incremental", "--lang=smt2", "--produce-models", fmt.Sprintf("--tlimit-per=%d", timeoutMs))
	default:
		return nil, fmt.Errorf("unknown solver %s", kind)
	}
	in, err := cmd.StdinPipe()
	if err != nil {
		return nil, err
	}
	outp, err := cmd.StdoutPipe()
	if err != nil {
		return nil, err
	}
	cmd.Stderr = cmd.Stdout
	if err := cmd.Start(); err != nil {
		return nil, err
	}
	s := &Solver{name: kind, cmd: cmd, in: in, out: bufio.NewReaderSize(outp, 1<<16), timeout: timeoutMs}
	s.Reset()
	return s, nil
}

func (s *Solver) Close() {
	s.in.Close()
	s.cmd.Process.Kill()
	s.cmd.Wait()
}

func (s *Solver) send(str string) {
	if s.log != nil {
		io.WriteString(s.log, str)
	}
	io.WriteString(s.in, str)
}

func (s *Solver) Reset() {
	s.em = emitter{defined: map[int64]bool{}, sb: &strings.Builder{}}
	s.vars = nil
	s.varSet = map[string]bool{}
	if s.name == "cvc5" {
		s.send("(reset)\n(set-logic QF_BV)\n(set-option :produce-models true)\n")
	} else {
		s.send("(reset)\n(set-option :produce-models true)\n")
	}
}

func (s *Solver) declareVars(t *Term, seen map[*Term]bool) {
	// iterative DFS
	stack := []*Term{t}
	for len(stack) > 0 {
		n := stack[len(stack)-1]
		stack = stack[:len(stack)-1]
		if seen[n] {
			continue
		}
		seen[n] = true
		if n.Op == OVar {
			if !s.varSet[n.Name] {
				s.varSet[n.Name] = true
				s.vars = append(s.vars, n)
				s.send(fmt.Sprintf("(declare-const %s %s)\n", n.Name, sortOf(n.W)))
			}
			continue
		}
		if n.Op != OConst && s.em.defined[n.id] {
			continue
		}
		stack = append(stack, n.A...)
	}
}

// prep declares vars and defines nodes for t at the current (base) level and returns its reference.
func (s *Solver) prep(t *Term) string {
	s.declareVars(t, map[*Term]bool{})
	s.em.sb.Reset()
	r := s.em.define(t)
	if s.em.sb.Len() > 0 {
		s.send(s.em.sb.String())
	}
	return r
}

// Assert adds t to the base-level path condition.
func (s *Solver) Assert(t *Term) {
	r := s.prep(t)
	s.send("(assert " + r + ")\n")
}

type SatResult int

const (
	Unsat SatResult = iota
	Sat
	Unknown
)

func (r SatResult) String() string { return [...]string{"unsat", "sat", "unknown"}[r] }

func (s *Solver) readLine() string {
	line, err := s.out.ReadString('\n')
	if err != nil {
		return "(error \"solver died: " + err.Error() + "\")"
	}
	return strings.TrimSpace(line)
}

// Check decides PC ∧ extra; on sat with wantModel fills model for all declared vars.
func (s *Solver) Check(extra *Term, wantModel bool) (SatResult, map[string]uint64) {
	t0 := time.Now()
	defer func() { s.Time += time.Since(t0); s.Queries++ }()
	var r string
	if extra != nil {
		r = s.prep(extra)
	}
	s.send("(push 1)\n")
	if extra != nil {
		s.send("(assert " + r + ")\n")
	}
	s.send("(check-sat)\n")
	var res SatResult
	for {
		line := s.readLine()
		if line == "" {
			continue
		}
		if strings.HasPrefix(line, "(error") {
			s.ErrSeen = line
			res = Unknown
			// keep reading until a verdict? z3 prints error and continues; the verdict still follows.
			if strings.Contains(line, "solver died") {
				return Unknown, nil
			}
			continue
		}
		switch line {
		case "sat":
			res = Sat
		case "unsat":
			res = Unsat
		case "unknown", "timeout":
			res = Unknown
		default:
			s.ErrSeen = "unexpected solver output: " + line
			res = Unknown
		}
		break
	}
	if s.ErrSeen != "" && res != Unknown {
		res = Unknown
	}
	var model map[string]uint64
	if res == Sat && wantModel {
		model = map[string]uint64{}
		if len(s.vars) > 0 {
			var sb strings.Builder
			sb.WriteString("(get-value (")
			for _, v := range s.vars {
				sb.WriteString(v.Name)
				sb.WriteByte(' ')
			}
			sb.WriteString("))\n")
			s.send(sb.String())
			// read balanced s-expression
			depth := 0
			var buf strings.Builder
			started := false
			for !started || depth > 0 {
				line := s.readLine()
				if strings.HasPrefix(line, "(error") {
					s.ErrSeen = line
					break
				}
				for _, c := range line {
					if c == '(' {
						depth++
						started = true
					} else if c == ')' {
						depth--
					}
				}
				buf.WriteString(line)
				buf.WriteByte(' ')
			}
			parseModel(buf.String(), model)
		}
	}
	s.send("(pop 1)\n")
	return res, model
}

func parseModel(txt string, m map[string]uint64) {
	// format: ((v1 #x00) (v2 true) (v3 (_ bv5 3)) ...)
	toks := tokenize(txt)
	// walk: expect "(" "(" name value ")" ...
	i := 0
	next := func() string {
		if i < len(toks) {
			i++
			return toks[i-1]
		}
		return ""
	}
	if next() != "(" {
		return
	}
	for i < len(toks) {
		t := next()
		if t == ")" {
			return
		}
		if t != "(" {
			return
		}
		name := next()
		v := next()
		var val uint64
		switch {
		case v == "true":
			val = 1
		case v == "false":
			val = 0
		case strings.HasPrefix(v, "#x"):
			val, _ = strconv.ParseUint(v[2:], 16, 64)
		case strings.HasPrefix(v, "#b"):
			val, _ = strconv.ParseUint(v[2:], 2, 64)
		case v == "(":
			// (_ bvN w)
			next() // _
			bv := next()
			next() // w
			next() // )
			val, _ = strconv.ParseUint(strings.TrimPrefix(bv, "bv"), 10, 64)
		}
		m[name] = val
		next() // ")"
	}
}

func tokenize(s string) []string {
	var out []string
	cur := strings.Builder{}
	flush := func() {
		if cur.Len() > 0 {
			out = append(out, cur.String())
			cur.Reset()
		}
	}
	for _, c := range s {
		switch c {
		case '(', ')':
			flush()
			out = append(out, string(c))
		case ' ', '\n', '\t', '\r':
			flush()
		default:
			cur.WriteRune(c)
		}
	}
	flush()
	return out
}
