package memberlist

import (
	"time"
)

func init() {
	vRegister("H_C03_ProbeCursor", H_C03_ProbeCursor)
	vRegister("H_C03_Detect", H_C03_Detect)
	vRegister("H_C04_PingAck", H_C04_PingAck)
	vRegister("H_C03_StreamPingName", H_C03_StreamPingName)
	vRegister("H_C04_TruthfulSelfAlive", H_C04_TruthfulSelfAlive)
	vRegister("H_C04_UpdateThenGossip", H_C04_UpdateThenGossip)
}

// vProbeTarget runs one probe() tick with a transport that fails fast and returns who was pinged ("" = nobody).
func (f *vFix) vProbeTarget() string {
	f.tr.attempts = nil
	f.tr.writeErr = true
	f.m.probe()
	f.tr.writeErr = false
	if len(f.tr.attempts) == 0 {
		return ""
	}
	return f.tr.attempts[0].Name
}

// C03/C04 lemma: the probe cursor never selects the local node or a dead/left peer, and between two wraps it
// visits every live peer exactly once, from an arbitrary cursor position and an arbitrary (reapable) table.
func H_C03_ProbeCursor() {
	conf := vBaseConfig()
	conf.GossipToTheDeadTime = 30 * time.Second
	f := vNewML(conf)
	m := f.m
	names := []string{vSelf, vPeerA, vPeerB, "n3"}
	n := 2 + vPick(3)
	// thorough: additionally an arbitrary permutation at every wrap, for 3-record tables of live peers
	shuffled := vTier() == 1 && n == 3 && vPick(2) == 1
	if shuffled {
		vOpt("shuffle", 1)
	}
	live := map[string]bool{}
	// arbitrary order: the local record at an arbitrary position
	selfAt := vPick(n)
	k := 1
	for i := 0; i < n; i++ {
		if i == selfAt {
			f.vAddSelf(3, nil)
			continue
		}
		ns := f.vAddConcreteAlive(names[k], byte(1+k))
		st := 0
		if !shuffled {
			st = vPick(4)
		}
		ns.State = NodeStateType(st)
		ns.StateChange = vNow().Add(-time.Duration([]int64{int64(time.Second), int64(time.Hour)}[vPick(2)]))
		live[names[k]] = st == 0 || st == 1
		k++
	}
	m.probeIndex = vPick(n + 1)
	nLive := 0
	for _, v := range live {
		if v {
			nLive++
		}
	}
	ticks := 2*n + 2
	seenThisPass := map[string]int{}
	total := map[string]int{}
	wraps := 0
	for t := 0; t < ticks; t++ {
		before := m.probeIndex
		tgt := f.vProbeTarget()
		after := m.probeIndex
		vAssert(after >= 0 && after <= len(m.nodes), "c03.cursor.index-in-range")
		wrapped := after <= before
		if wrapped {
			// a completed pass (not the partial first one) has visited every live peer exactly once
			if wraps >= 1 {
				for name, lv := range live {
					if lv {
						vAssert(seenThisPass[name] == 1, "c03.cursor.once-per-pass")
					}
				}
			}
			wraps++
			seenThisPass = map[string]int{}
		}
		if tgt != "" {
			vAssert(tgt != vSelf, "c03.cursor.never-self")
			vAssert(live[tgt], "c03.cursor.never-dead-or-left")
			seenThisPass[tgt]++
			total[tgt]++
			vAssert(seenThisPass[tgt] <= 1, "c03.cursor.at-most-once-per-pass")
		}
	}
	for name, lv := range live {
		if lv {
			vAssert(total[name] >= 1, "c03.cursor.every-live-peer-probed-within-two-passes")
		}
	}
	if nLive > 0 {
		vAssert(wraps >= 1, "c03.cursor.wraps")
	}
	vCover("c03.cursor")
}

// C03: one observer, one crashed member, one responsive bystander, real probe()/probeNode/suspicion timers under
// virtual time. The crashed member is declared dead (on the observer's own evidence, one leave event) within
// two passes at the scaled pace plus the maximum suspicion timeout; the responsive bystander is never suspected.
func H_C03_Detect() {
	conf := vBaseConfig()
	conf.DisableTcpPings = true
	conf.IndirectChecks = vPick(2)
	conf.ProbeTimeout = 500 * time.Millisecond
	conf.ProbeInterval = time.Second
	conf.SuspicionMult = 4
	conf.SuspicionMaxTimeoutMult = 6
	f := vNewML(conf)
	m := f.m
	order := vPick(3) // position of the crashed member in the table
	var crashed, by *nodeState
	for i := 0; i < 3; i++ {
		switch {
		case i == order:
			crashed = f.vAddConcreteAlive(vPeerA, 2)
		case (i == 0 && order != 0) || (i == 1 && order == 0):
			f.vAddSelf(3, nil)
		default:
			by = f.vAddConcreteAlive(vPeerB, 3)
		}
	}
	m.probeIndex = vPick(4)
	score := vPick(2)
	m.awareness.score = score
	// the bystander answers every ping addressed to it after a symbolic latency below half the probe timeout
	lat := time.Duration(vRange(0, int(conf.ProbeTimeout/2)))
	var deliver func(b []byte, a Address)
	f.tr.onWrite = func(b []byte, a Address) { deliver(b, a) }
	deliver = func(b []byte, a Address) {
		if a.Name != vPeerB || len(b) == 0 {
			return
		}
		var p ping
		var ind indirectPingReq
		switch messageType(b[0]) {
		case compoundMsg:
			// piggybacked gossip: the bystander unpacks it like any receiver
			if _, parts, err := decodeCompoundMessage(b[1:]); err == nil {
				for _, part := range parts {
					deliver(part, a)
				}
			}
		case pingMsg:
			if decode(b[1:], &p) == nil {
				seq := p.SeqNo
				go func() { time.Sleep(lat); m.invokeAckHandler(ackResp{SeqNo: seq}, time.Now()) }()
			}
		case indirectPingMsg:
			// asked to probe the crashed member on our behalf: it will find nobody and nack
			if decode(b[1:], &ind) == nil && ind.Nack {
				seq := ind.SeqNo
				go func() { time.Sleep(conf.ProbeTimeout); m.invokeNackHandler(nackResp{SeqNo: seq}) }()
			}
		}
	}
	start := vNow()
	maxScale := time.Duration(conf.AwarenessMaxMultiplier)
	bound := 2*4*conf.ProbeInterval*maxScale + 6*4*conf.ProbeInterval // two passes over <= 4 slots at the slowest pace + max suspicion timeout
	ticks := 0
	for crashed.State != StateDead && ticks < 40 {
		tickStart := vNow()
		m.probe()
		// the ticker fires every ProbeInterval and skips ticks while a probe is still running
		spent := vNow().Sub(tickStart)
		wait := conf.ProbeInterval - spent
		for k := 0; k < 8 && wait <= 0; k++ { // (no division: 64-bit remainder by 10^9 stalls every solver)
			wait += conf.ProbeInterval
		}
		vAdvance(wait)
		ticks++
		vAssert(by.State == StateAlive, "c03.detect.responsive-peer-never-suspected")
	}
	vAssert(crashed.State == StateDead, "c03.detect.crashed-member-declared-dead")
	vAssert(vNow().Sub(start) <= bound, "c03.detect.within-configured-bound")
	vAssert(!f.vIsMember(vPeerA) && f.vIsMember(vPeerB) && f.vIsMember(vSelf), "c03.detect.members")
	leaves := 0
	for _, e := range f.ev.log {
		vAssert(e.kind == 2 && e.name == vPeerA, "c03.detect.only-the-crashed-leaves")
		leaves++
	}
	vAssert(leaves == 1, "c03.detect.one-leave-event")
	mb := f.vQueuedFor(vPeerA)
	if mb != nil && mb.msg[0] == byte(deadMsg) {
		var d dead
		vAssert(decode(mb.msg[1:], &d) == nil && d.From == vSelf, "c03.detect.own-evidence")
	}
	vCover("c03.detect")
}

// C04 lemma: a ping is answered inline by the packet listener path (not via the handoff queue), with the ping's own
// sequence number, to the ping's source.
func H_C04_PingAck() {
	conf := vBaseConfig()
	f := vNewML(conf)
	m := f.m
	f.vAddSelf(3, nil)
	seq := vU32()
	useSource := vBool()
	p := ping{SeqNo: seq, Node: []string{vSelf, ""}[vPick(2)]}
	wantTo := "10.0.0.2:7946"
	if useSource {
		p.SourceAddr, p.SourcePort, p.SourceNode = []byte{10, 0, 0, 2}, 7946, vPeerA
		if vPick(2) == 1 {
			// an IPv6 prober: the reply address needs brackets
			p.SourceAddr = []byte{0xfd, 0, 0, 0, 0, 0, 0, 0, 0, 0, 0, 0, 0, 0, 0, 7}
			wantTo = "[fd00::7]:7946"
		}
	}
	buf, err := encode(pingMsg, &p, false)
	vAssert(err == nil, "c04.ping.encode")
	m.ingestPacket(buf.Bytes(), vAddr("10.0.0.9:7000"), vNow())
	vAssert(m.highPriorityMsgQueue.Len() == 0 && m.lowPriorityMsgQueue.Len() == 0, "c04.ping.not-queued")
	vAssert(len(f.tr.packets) == 1, "c04.ping.acked-before-return")
	if len(f.tr.packets) == 1 {
		var a ackResp
		mt, ok := vDecodePkt(f.tr.packets[0], &a)
		vAssert(ok && mt == ackRespMsg && a.SeqNo == seq, "c04.ping.ack-carries-seq")
		if useSource {
			vAssert(f.tr.to[0].Addr == wantTo && f.tr.to[0].Name == vPeerA, "c04.ping.ack-to-source")
		} else {
			vAssert(f.tr.to[0].Addr == "10.0.0.9:7000", "c04.ping.ack-to-sender")
		}
	}
	// a ping meant for somebody else is not answered
	q := ping{SeqNo: seq, Node: vPeerB}
	buf2, _ := encode(pingMsg, &q, false)
	m.ingestPacket(buf2.Bytes(), vAddr("10.0.0.9:7000"), vNow())
	vAssert(len(f.tr.packets) == 1, "c04.ping.foreign-name-ignored")
	vCover("c04.ping")
}

// C04 lemma: the only messages about a node that a healthy cluster carries are the node's own announcements,
// current or older. Neither may cost it health, raise its incarnation or be answered.
func H_C04_TruthfulSelfAlive() {
	conf := vBaseConfig()
	f := vNewML(conf)
	m := f.m
	inc := vU32()
	vAssume(inc >= 1 && inc < 0xFFFFFFF0)
	me := f.vAddSelf(inc, vBytes(vPick(2)))
	f.vAddConcreteAlive(vPeerA, 2)
	old := vU32()
	vAssume(old <= inc)
	a := alive{Incarnation: old, Node: vSelf, Addr: me.Addr, Port: me.Port, Vsn: []uint8{me.PMin, me.PMax, me.PCur, me.DMin, me.DMax, me.DCur}}
	if old == inc {
		a.Meta = append([]byte(nil), me.Meta...) // the current announcement carries the current metadata
	} else {
		a.Meta = vBytes(vPick(2)) // an older announcement may carry older metadata
	}
	if vPick(2) == 1 {
		m.mergeState([]pushNodeState{{Name: vSelf, Addr: a.Addr, Port: a.Port, Meta: a.Meta, Incarnation: old, State: StateAlive, Vsn: a.Vsn}})
	} else {
		m.aliveNode(&a, nil, false)
	}
	vAssert(m.GetHealthScore() == 0, "c04.self-alive.health-stays-zero")
	vAssert(me.Incarnation == inc && m.incarnation.Load() == inc, "c04.self-alive.no-refutation")
	vAssert(m.broadcasts.NumQueued() == 0, "c04.self-alive.nothing-gossiped")
	vAssert(len(f.ev.log) == 0, "c04.self-alive.no-event")
	vCover("c04.self-alive")
}

// C03/C19: the TCP fallback ping is only acknowledged by the member it names (a different member that took
// over a crashed member's address must not keep the crashed name alive), and the ack carries the ping's number.
func H_C03_StreamPingName() {
	conf := vBaseConfig()
	f := vNewML(conf)
	f.vAddSelf(3, nil)
	seq := vU32()
	name := []string{vSelf, "", vPeerA}[vPick(3)]
	buf, err := encode(pingMsg, &ping{SeqNo: seq, Node: name}, false)
	vAssert(err == nil, "c03.tcp-ping.encode")
	conn := &vConn{in: buf.Bytes(), frag: vPick(2)}
	f.m.handleConn(conn)
	if name == vPeerA {
		vAssert(len(conn.out) == 0, "c03.tcp-ping.foreign-name-not-acked")
		vCover("c03.tcp-ping.foreign")
	} else {
		vAssert(len(conn.out) > 1 && conn.out[0] == byte(ackRespMsg), "c03.tcp-ping.acked")
		if len(conn.out) > 1 {
			var a ackResp
			vAssert(decode(conn.out[1:], &a) == nil && a.SeqNo == seq, "c03.tcp-ping.ack-seq")
		}
		vCover("c03.tcp-ping.own")
	}
	vAssert(conn.closed >= 1, "c03.tcp-ping.closed")
}

// C04: a metadata update made before or after peers exist (with a waiter that is long gone when the broadcast
// completes, is superseded or is pruned) never wedges the node: gossip keeps running to completion of the
// retransmissions, the queue drains, and pings are still answered at once.
func H_C04_UpdateThenGossip() {
	conf := vBaseConfig()
	conf.GossipNodes = 1
	conf.RetransmitMult = 1 + vPick(2)
	f := vNewML(conf)
	m := f.m
	f.del = &vDelegateRec{}
	conf.Delegate = f.del
	me := f.vAddSelf(3, nil)
	order := vPick(3)
	if order == 0 {
		// alone: UpdateNode has nobody to wait for and returns at once
		vAssert(m.UpdateNode(time.Second) == nil, "c04.update.alone-ok")
		f.vAddConcreteAlive(vPeerA, 2).PMax = 2
	} else {
		f.vAddConcreteAlive(vPeerA, 2).PMax = 2
		// with a peer: nobody gossips while we wait, so the call gives up at its timeout - the broadcast stays queued
		err := m.UpdateNode(time.Second)
		vAssert(err != nil, "c04.update.times-out-without-gossip")
		if order == 2 {
			// a second update supersedes the first while it is still queued
			err2 := m.UpdateNode(time.Second)
			vAssert(err2 != nil, "c04.update.second-times-out")
		}
	}
	vAssert(me.Incarnation > 3, "c04.update.incarnation-raised")
	rounds := 0
	for ; m.broadcasts.NumQueued() > 0 && rounds < 12; rounds++ {
		m.gossip()
	}
	vAssert(m.broadcasts.NumQueued() == 0, "c04.update.queue-drains")
	vAssert(rounds >= 1 && rounds <= 8, "c04.update.bounded-retransmits")
	f.tr.packets = nil
	buf, _ := encode(pingMsg, &ping{SeqNo: 9, Node: vSelf}, false)
	m.handlePing(buf.Bytes()[1:], vAddr("10.0.0.2:7946"))
	vAssert(len(f.tr.packets) == 1, "c04.update.still-answers-pings")
	vAssert(m.GetHealthScore() == 0, "c04.update.health-stays-zero")
	vAssert(vLiveGoroutines() == 0, "c04.update.nothing-left-running")
	vCover("c04.update")
}
