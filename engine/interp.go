package main

import (
	"fmt"
	"go/constant"
	"go/token"
	"go/types"
	"strings"

	"golang.org/x/tools/go/ssa"
)

type deferred struct {
	fn    Value
	args  []Value
	instr *ssa.Defer
	tail  *deferred
}

type frame struct {
	p         *Path
	th        *thread
	caller    *frame
	fn        *ssa.Function
	block     *ssa.BasicBlock
	prevBlock *ssa.BasicBlock
	env       map[ssa.Value]Value
	locals    []Value
	defers    *deferred
	result    Value
	panicking bool
	panicVal  interface{}
	visits    map[*ssa.BasicBlock]int
	curPos    token.Pos
	skipPhis  bool
}

func (fr *frame) get(key ssa.Value) Value {
	switch key := key.(type) {
	case nil:
		return nil
	case *ssa.Function:
		return key
	case *ssa.Builtin:
		return key
	case *ssa.Const:
		return constValue(key)
	case *ssa.Global:
		return fr.p.global(key)
	}
	if r, ok := fr.env[key]; ok {
		return r
	}
	panic(fmt.Sprintf("get: no value for %T: %v in %s", key, key.Name(), fr.fn))
}

func constValue(c *ssa.Const) Value {
	t := c.Type()
	if c.Value == nil {
		return zero(t)
	}
	if w, signed, ok := intInfo(t); ok {
		if w == 0 {
			return BoolT(constant.BoolVal(c.Value))
		}
		if signed {
			return BV(w, uint64(c.Int64()))
		}
		return BV(w, c.Uint64())
	}
	if isFloat(t) {
		return FloatVal{F: c.Float64()}
	}
	if isString(t) {
		return mkStr(constant.StringVal(c.Value))
	}
	unsup("const of type %v", t)
	return nil
}

func (p *Path) global(g *ssa.Global) *Value {
	if v, ok := p.globals[g]; ok {
		return v
	}
	// lazily run the package initialiser (variable initialisers only)
	if g.Pkg != nil && !p.inited[g.Pkg] {
		p.inited[g.Pkg] = true
		p.runInit(g.Pkg)
		if v, ok := p.globals[g]; ok {
			return v
		}
	}
	return p.allocGlobal(g)
}

func (p *Path) allocGlobal(g *ssa.Global) *Value {
	v := new(Value)
	*v = zero(deref(g.Type()))
	if g.Pkg != nil && g.Pkg.Pkg.Path() == "crypto/rand" && g.Name() == "Reader" {
		*v = IfaceVal{T: mkRand, V: markerCell()}
	}
	p.globals[g] = v
	return v
}

func deref(t types.Type) types.Type {
	if pt, ok := t.Underlying().(*types.Pointer); ok {
		return pt.Elem()
	}
	panic(fmt.Sprintf("deref of non-pointer %v", t))
}

func (p *Path) runInit(pkg *ssa.Package) {
	// allocate all globals first
	for _, m := range pkg.Members {
		if g, ok := m.(*ssa.Global); ok {
			if _, ok := p.globals[g]; !ok {
				p.allocGlobal(g)
			}
		}
	}
	path := pkg.Pkg.Path()
	if !p.ex.initPkgs[path] {
		return
	}
	init := pkg.Func("init")
	if init == nil || init.Blocks == nil {
		return
	}
	th := p.cur
	saved := p.depth
	p.callSSA(th, nil, token.NoPos, init, nil, nil)
	p.depth = saved
}

// load/store with value semantics for aggregates
func load(addr *Value) Value { return copyVal(*addr) }

func storeInto(dst *Value, v Value) {
	switch x := v.(type) {
	case StructVal:
		if d, ok := (*dst).(StructVal); ok && len(d) == len(x) {
			for i := range x {
				storeInto(&d[i], x[i])
			}
			return
		}
	case ArrayVal:
		if d, ok := (*dst).(ArrayVal); ok && len(d) == len(x) {
			for i := range x {
				storeInto(&d[i], x[i])
			}
			return
		}
	}
	*dst = copyVal(v)
}

func (p *Path) callSSA(th *thread, caller *frame, callpos token.Pos, fn *ssa.Function, args []Value, env []Value) Value {
	if fn == nil {
		p.obligation(tFalse, "nil", "call of nil function", "", caller, callpos)
	}
	name := fn.String()
	if caller != nil && (fn.Synthetic == "package initializer" || strings.HasPrefix(fn.Name(), "init#")) {
		return nil // nested package initialisers and user init() functions are not run
	}
	if fn.Parent() == nil && !(p.kRandomReal && name == mlPkg+".kRandomNodes") {
		if in := p.ex.intrinsic(fn, name); in != nil {
			return in(p, th, caller, callpos, fn, args)
		}
	}
	if fn.Blocks == nil {
		unsup("no body for function %s (called at %s)", name, p.posStr(callpos))
	}
	if fn.TypeParams().Len() > 0 && len(fn.TypeArgs()) == 0 {
		unsup("uninstantiated generic %s", name)
	}
	if p.callBounds != nil {
		if b, ok := p.callBounds[fn.Name()]; ok {
			p.callCounts[fn.Name()]++
			if p.callCounts[fn.Name()] > b {
				p.note(fmt.Sprintf("bound: at most %d calls of %s per path; deeper paths are cut", b, fn.Name()))
				p.abort("bounded")
			}
		}
	}
	p.depth++
	if p.depth > p.ex.maxDepth {
		p.inconc = append(p.inconc, "call depth bound exceeded in "+name)
		p.abort("unwind: depth")
	}
	defer func() { p.depth-- }()
	p.ex.noteFunc(fn)
	fr := &frame{p: p, th: th, caller: caller, fn: fn}
	fr.env = make(map[ssa.Value]Value, 16)
	fr.block = fn.Blocks[0]
	fr.locals = make([]Value, len(fn.Locals))
	for i, l := range fn.Locals {
		fr.locals[i] = zero(deref(l.Type()))
		fr.env[l] = &fr.locals[i]
	}
	for i, prm := range fn.Params {
		fr.env[prm] = args[i]
	}
	for i, fv := range fn.FreeVars {
		fr.env[fv] = env[i]
	}
	for fr.block != nil {
		fr.run()
	}
	return fr.result
}

// run executes until return; target panics are caught here to run defers.
func (fr *frame) run() {
	defer func() {
		if fr.block == nil {
			return
		}
		r := recover()
		if _, ok := r.(targetPanic); !ok {
			switch r.(type) {
			case pathAbort, unsupported, threadKill, engineErr:
				panic(r) // engine-level abort/unsupported/kill: propagate untouched
			}
			panic(engineErr{fmt.Sprintf("%v [at %s in %s]", r, fr.p.posStr(fr.curPos), fr.fn)})
		}
		fr.panicking = true
		fr.panicVal = r
		fr.runDefers()
		fr.block = fr.fn.Recover
		if fr.block == nil {
			// recovered, no named results: return zero values
			fr.result = zeroResult(fr.fn)
		}
	}()
	for {
		fr.execPhis()
		for _, instr := range fr.block.Instrs {
			if _, ok := instr.(*ssa.Phi); ok {
				continue
			}
			fr.p.steps++
			if fr.p.steps > fr.p.ex.maxSteps {
				fr.p.inconc = append(fr.p.inconc, "step bound exceeded")
				fr.p.abort("unwind: steps")
			}
			if pos := instr.Pos(); pos != token.NoPos {
				fr.curPos = pos
			}
			switch fr.visit(instr) {
			case kReturn:
				return
			case kJump:
				goto next
			}
		}
	next:
	}
}

func zeroResult(fn *ssa.Function) Value {
	res := fn.Signature.Results()
	switch res.Len() {
	case 0:
		return nil
	case 1:
		return zero(res.At(0).Type())
	}
	return zero(res)
}

func (fr *frame) execPhis() {
	if fr.skipPhis {
		fr.skipPhis = false
		return
	}
	var tmp []Value
	var phis []*ssa.Phi
	for _, instr := range fr.block.Instrs {
		phi, ok := instr.(*ssa.Phi)
		if !ok {
			break
		}
		for i, pred := range fr.block.Preds {
			if pred == fr.prevBlock {
				tmp = append(tmp, fr.get(phi.Edges[i]))
				phis = append(phis, phi)
				break
			}
		}
	}
	for i, phi := range phis {
		fr.env[phi] = tmp[i]
	}
}

func (fr *frame) runDefers() {
	for d := fr.defers; d != nil; d = d.tail {
		fr.runDefer(d)
	}
	fr.defers = nil
	if fr.panicking {
		panic(fr.panicVal)
	}
}

func (fr *frame) runDefer(d *deferred) {
	var ok bool
	defer func() {
		if !ok {
			r := recover()
			if _, isT := r.(targetPanic); !isT {
				panic(r)
			}
			fr.panicking = true
			fr.panicVal = r
		}
	}()
	fr.p.call(fr.th, fr, d.instr.Pos(), d.fn, d.args)
	ok = true
}

type continuation int

const (
	kNext continuation = iota
	kReturn
	kJump
)

func (p *Path) call(th *thread, caller *frame, pos token.Pos, fn Value, args []Value) Value {
	switch fn := fn.(type) {
	case *ssa.Function:
		return p.callSSA(th, caller, pos, fn, args, nil)
	case *Closure:
		return p.callSSA(th, caller, pos, fn.Fn, args, fn.Env)
	case *ssa.Builtin:
		return p.callBuiltin(caller, pos, fn, args)
	case *markerCall:
		return p.callMarker(th, caller, pos, fn, args)
	case FuncNil:
		p.obligation(tFalse, "nil", "nilfunc@"+fnName(caller), "call of nil func value", caller, pos)
	}
	panic(fmt.Sprintf("cannot call %T", fn))
}

func fnName(fr *frame) string {
	if fr == nil {
		return "?"
	}
	return fr.fn.String()
}

func (fr *frame) prepareCall(call *ssa.CallCommon, pos token.Pos) (fn Value, args []Value) {
	v := fr.get(call.Value)
	if call.Method == nil {
		fn = v
	} else {
		recv := v.(IfaceVal)
		if recv.T == nil {
			fr.p.obligation(tFalse, "nil", "nilinvoke@"+fr.fn.String(), "method "+call.Method.Name()+" invoked on nil interface", fr, pos)
		}
		if mc := markerMethod(recv.T, call.Method.Name()); mc != nil {
			fn = mc
		} else {
			f := fr.p.ex.prog.LookupMethod(recv.T, call.Method.Pkg(), call.Method.Name())
			if f == nil {
				unsup("method set of %v lacks %s", recv.T, call.Method)
			}
			fn = f
		}
		args = append(args, recv.V)
	}
	for _, a := range call.Args {
		args = append(args, fr.get(a))
	}
	return
}

func (fr *frame) visit(instr ssa.Instruction) continuation {
	p := fr.p
	switch instr := instr.(type) {
	case *ssa.DebugRef:
	case *ssa.UnOp:
		fr.env[instr] = fr.unop(instr, fr.get(instr.X))
	case *ssa.BinOp:
		fr.env[instr] = fr.binop(instr.Op, instr.X.Type(), fr.get(instr.X), fr.get(instr.Y), instr.Pos())
	case *ssa.Call:
		fn, args := fr.prepareCall(&instr.Call, instr.Pos())
		fr.env[instr] = p.call(fr.th, fr, instr.Pos(), fn, args)
	case *ssa.ChangeInterface:
		fr.env[instr] = fr.get(instr.X)
	case *ssa.ChangeType:
		fr.env[instr] = fr.get(instr.X)
	case *ssa.Convert:
		fr.env[instr] = fr.conv(instr.Type(), instr.X.Type(), fr.get(instr.X))
	case *ssa.MultiConvert:
		fr.env[instr] = fr.conv(instr.Type(), instr.X.Type(), fr.get(instr.X))
	case *ssa.SliceToArrayPointer:
		unsup("SliceToArrayPointer")
	case *ssa.MakeInterface:
		fr.env[instr] = IfaceVal{T: instr.X.Type(), V: fr.get(instr.X)}
	case *ssa.Extract:
		fr.env[instr] = fr.get(instr.Tuple).(TupleVal)[instr.Index]
	case *ssa.Slice:
		fr.env[instr] = fr.slice(instr)
	case *ssa.Return:
		switch len(instr.Results) {
		case 0:
		case 1:
			fr.result = fr.get(instr.Results[0])
		default:
			res := make(TupleVal, 0, len(instr.Results))
			for _, r := range instr.Results {
				res = append(res, fr.get(r))
			}
			fr.result = res
		}
		fr.block = nil
		return kReturn
	case *ssa.RunDefers:
		fr.runDefers()
	case *ssa.Panic:
		panic(targetPanic{v: fr.get(instr.X), pos: p.posStr(instr.Pos()), fn: fr.fn.String()})
	case *ssa.Send:
		p.chanSend(fr, fr.get(instr.Chan).(*ChanObj), fr.get(instr.X), instr.Pos())
	case *ssa.Store:
		addr := fr.get(instr.Addr).(*Value)
		fr.nilCheck(addr, instr.Pos(), "store")
		storeInto(addr, fr.get(instr.Val))
	case *ssa.If:
		c := fr.get(instr.Cond).(*Term)
		if !c.IsConst() {
			if j := fr.tryMerge(instr, c); j != nil {
				fr.jump(j)
				fr.skipPhis = true
				return kJump
			}
		}
		succ := 1
		if p.branch(c) {
			succ = 0
		}
		fr.jump(fr.block.Succs[succ])
		return kJump
	case *ssa.Jump:
		fr.jump(fr.block.Succs[0])
		return kJump
	case *ssa.Defer:
		fn, args := fr.prepareCall(&instr.Call, instr.Pos())
		fr.defers = &deferred{fn: fn, args: args, instr: instr, tail: fr.defers}
	case *ssa.Go:
		fn, args := fr.prepareCall(&instr.Call, instr.Pos())
		p.spawn(fn, args, instr.Pos())
	case *ssa.MakeChan:
		n := p.concretize(fr.get(instr.Size).(*Term), "chan size")
		fr.env[instr] = p.newChan(int(n), instr.Type().Underlying().(*types.Chan).Elem())
	case *ssa.Alloc:
		var addr *Value
		if instr.Heap {
			addr = new(Value)
			fr.env[instr] = addr
		} else {
			addr = fr.env[instr].(*Value)
		}
		*addr = zero(deref(instr.Type()))
	case *ssa.MakeSlice:
		lt := fr.get(instr.Len).(*Term)
		ct := fr.get(instr.Cap).(*Term)
		p.obligation(Cmp(OSle, BV(64, 0), lt), "makeslice", "makeslice@"+fr.fn.String(), "negative make size", fr, instr.Pos())
		// allocation accounting (bytes requested through make with a non-constant size), read by vAllocated
		if !lt.IsConst() || !ct.IsConst() {
			esz := uint64(p.ex.sizes.Sizeof(instr.Type().Underlying().(*types.Slice).Elem()))
			big := lt
			if p.allocTerm == nil {
				p.allocTerm = BV(64, 0)
			}
			p.allocTerm = Bin(OAdd, p.allocTerm, Bin(OMul, big, BV(64, esz)))
		}
		lt = p.sizeClass(lt)
		n := int64(p.concretize(lt, "make len"))
		if ct != lt {
			ct = p.sizeClass(ct)
		}
		c := int64(p.concretize(ct, "make cap"))
		if c < n {
			c = n
		}
		if c > p.ex.maxAlloc {
			p.inconc = append(p.inconc, fmt.Sprintf("allocation of %d elements exceeds engine bound at %s", c, p.posStr(instr.Pos())))
			p.abort("unwind: alloc")
		}
		back := make([]Value, c)
		et := instr.Type().Underlying().(*types.Slice).Elem()
		fillZero(back, et)
		fr.env[instr] = SliceVal{Back: back, N: int(n)}
	case *ssa.MakeMap:
		mt := instr.Type().Underlying().(*types.Map)
		fr.env[instr] = &MapObj{KT: mt.Key(), VT: mt.Elem()}
	case *ssa.Range:
		fr.env[instr] = fr.rangeIter(instr, fr.get(instr.X))
	case *ssa.Next:
		fr.env[instr] = fr.get(instr.Iter).(iterator).next(fr)
	case *ssa.FieldAddr:
		x := fr.get(instr.X).(*Value)
		fr.nilCheck(x, instr.Pos(), "fieldaddr")
		fr.env[instr] = &(*x).(StructVal)[instr.Field]
	case *ssa.Field:
		fr.env[instr] = copyVal(fr.get(instr.X).(StructVal)[instr.Field])
	case *ssa.IndexAddr:
		x := fr.get(instr.X)
		idx := fr.get(instr.Index).(*Term)
		switch x := x.(type) {
		case SliceVal:
			i := fr.boundsIdx(idx, instr.Index.Type(), x.N, instr.Pos())
			fr.env[instr] = &x.Back[i]
		case *Value:
			fr.nilCheck(x, instr.Pos(), "indexaddr")
			a := (*x).(ArrayVal)
			i := fr.boundsIdx(idx, instr.Index.Type(), len(a), instr.Pos())
			fr.env[instr] = &a[i]
		default:
			panic(fmt.Sprintf("IndexAddr on %T", x))
		}
	case *ssa.Index:
		x := fr.get(instr.X)
		idx := fr.get(instr.Index).(*Term)
		switch x := x.(type) {
		case ArrayVal:
			i := fr.boundsIdx(idx, instr.Index.Type(), len(x), instr.Pos())
			fr.env[instr] = copyVal(x[i])
		case *StrVal:
			i := fr.boundsIdx(idx, instr.Index.Type(), x.Len(), instr.Pos())
			fr.env[instr] = x.At(i)
		default:
			panic(fmt.Sprintf("Index on %T", x))
		}
	case *ssa.Lookup:
		fr.env[instr] = fr.lookup(instr)
	case *ssa.MapUpdate:
		m := fr.get(instr.Map).(*MapObj)
		if m == nil {
			p.obligation(tFalse, "nilmap", "nilmap@"+fr.fn.String(), "assignment to entry in nil map", fr, instr.Pos())
		}
		p.mapSet(m, fr.get(instr.Key), fr.get(instr.Value))
	case *ssa.TypeAssert:
		fr.env[instr] = fr.typeAssert(instr)
	case *ssa.MakeClosure:
		var b []Value
		for _, x := range instr.Bindings {
			b = append(b, fr.get(x))
		}
		fr.env[instr] = &Closure{Fn: instr.Fn.(*ssa.Function), Env: b}
	case *ssa.Select:
		fr.env[instr] = p.doSelect(fr, instr)
	default:
		unsup("instruction %T in %s", instr, fr.fn)
	}
	return kNext
}

func fillZero(back []Value, et types.Type) {
	if len(back) == 0 {
		return
	}
	z := zero(et)
	switch z.(type) {
	case StructVal, ArrayVal:
		for i := range back {
			back[i] = zero(et)
		}
	default:
		for i := range back {
			back[i] = z
		}
	}
}

func (fr *frame) jump(to *ssa.BasicBlock) {
	// loop unwinding check: count visits per block in this frame
	if fr.visits == nil {
		fr.visits = map[*ssa.BasicBlock]int{}
	}
	fr.visits[to]++
	if fr.visits[to] > fr.p.unwindBound() {
		fr.p.inconc = append(fr.p.inconc, fmt.Sprintf("unwinding bound %d exceeded in %s block %d", fr.p.unwindBound(), fr.fn, to.Index))
		fr.p.abort("unwind: loop")
	}
	fr.prevBlock, fr.block = fr.block, to
}

func (fr *frame) nilCheck(x *Value, pos token.Pos, what string) {
	if x == nil {
		fr.p.obligation(tFalse, "nil", "nilderef@"+fr.fn.String(), "nil pointer dereference ("+what+")", fr, pos)
	}
}

// boundsIdx checks 0 <= idx < n and returns a concrete index.
func (fr *frame) boundsIdx(idx *Term, it types.Type, n int, pos token.Pos) int {
	p := fr.p
	_, signed, _ := intInfo(it)
	var i64 *Term
	if signed {
		i64 = SExt(idx, 64)
	} else {
		i64 = ZExt(idx, 64)
	}
	if i64.IsConst() {
		v := int64(i64.Val)
		if v < 0 || v >= int64(n) {
			p.obligation(tFalse, "index", "index@"+fr.fn.String(), fmt.Sprintf("index %d out of range [0,%d)", v, n), fr, pos)
		}
		return int(v)
	}
	ok := And(Cmp(OSle, BV(64, 0), i64), Cmp(OSlt, i64, BV(64, uint64(n))))
	p.obligation(ok, "index", "index@"+fr.fn.String(), fmt.Sprintf("index out of range [0,%d)", n), fr, pos)
	return int(p.concretize(i64, "index"))
}

func (fr *frame) slice(instr *ssa.Slice) Value {
	p := fr.p
	x := fr.get(instr.X)
	getI := func(v ssa.Value) (*Term, bool) {
		if v == nil {
			return nil, false
		}
		t := fr.get(v).(*Term)
		_, signed, _ := intInfo(v.Type())
		if signed {
			return SExt(t, 64), true
		}
		return ZExt(t, 64), true
	}
	lo, hasLo := getI(instr.Low)
	hi, hasHi := getI(instr.High)
	mx, hasMax := getI(instr.Max)
	var ln, cp int
	var back []Value
	var str *StrVal
	isNil := false
	switch x := x.(type) {
	case SliceVal:
		ln, cp, back = x.N, len(x.Back), x.Back
		isNil = x.Nil
	case *StrVal:
		ln, cp, str = x.Len(), x.Len(), x
	case *Value:
		fr.nilCheck(x, instr.Pos(), "slice of array pointer")
		a := (*x).(ArrayVal)
		ln, cp, back = len(a), len(a), []Value(a)
	default:
		panic(fmt.Sprintf("slice of %T", x))
	}
	if !hasLo {
		lo = BV(64, 0)
	}
	if !hasHi {
		hi = BV(64, uint64(ln))
	}
	if !hasMax {
		mx = BV(64, uint64(cp))
	}
	upper := cp
	if str != nil {
		upper = ln
	}
	// 0 <= lo <= hi <= max <= cap
	ok := And(And(Cmp(OSle, BV(64, 0), lo), Cmp(OSle, lo, hi)), And(Cmp(OSle, hi, mx), Cmp(OSle, mx, BV(64, uint64(upper)))))
	p.obligation(ok, "slice", "slice@"+fr.fn.String(), fmt.Sprintf("slice bounds out of range (len %d cap %d)", ln, cp), fr, instr.Pos())
	l := int(p.concretize(lo, "slice low"))
	h := int(p.concretize(hi, "slice high"))
	m := int(p.concretize(mx, "slice max"))
	if str != nil {
		if str.Sym != nil {
			return mkStrTerms(str.Sym[l:h])
		}
		return mkStr(str.S[l:h])
	}
	if isNil && h == 0 {
		return SliceVal{Nil: true}
	}
	return SliceVal{Back: back[l:m:m], N: h - l}
}

func (fr *frame) typeAssert(instr *ssa.TypeAssert) Value {
	p := fr.p
	v := fr.get(instr.X).(IfaceVal)
	var ok bool
	if _, isIface := instr.AssertedType.Underlying().(*types.Interface); isIface {
		if v.T != nil {
			ok = types.Implements(v.T, instr.AssertedType.Underlying().(*types.Interface))
			if !ok {
				// pointer receiver method sets are already in v.T for pointer types
				ok = p.ex.implements(v.T, instr.AssertedType.Underlying().(*types.Interface))
			}
		}
		if instr.CommaOk {
			if ok {
				return TupleVal{v, tTrue}
			}
			return TupleVal{IfaceVal{}, tFalse}
		}
		if !ok {
			p.obligation(tFalse, "typeassert", "typeassert@"+fr.fn.String(), "interface conversion failed", fr, instr.Pos())
		}
		return v
	}
	ok = v.T != nil && types.Identical(v.T, instr.AssertedType)
	if instr.CommaOk {
		if ok {
			return TupleVal{copyVal(v.V), tTrue}
		}
		return TupleVal{zero(instr.AssertedType), tFalse}
	}
	if !ok {
		p.obligation(tFalse, "typeassert", "typeassert@"+fr.fn.String(), fmt.Sprintf("interface conversion: %v is not %v", v.T, instr.AssertedType), fr, instr.Pos())
	}
	return copyVal(v.V)
}

var _ = strings.HasPrefix

func (p *Path) unwindBound() int {
	if p.unwind > 0 {
		return p.unwind
	}
	return p.ex.defaultUnwind
}

type engineErr struct{ msg string }

// sizeClass: a symbolic allocation size is split into the exact sizes 0..4 and one representative
// (4096) for everything larger; recorded as a stated bound.
func (p *Path) sizeClass(t *Term) *Term {
	if t.IsConst() {
		return t
	}
	for v := uint64(0); v <= 4; v++ {
		if p.branch(Cmp(OEq, t, BV(t.W, v))) {
			return BV(t.W, v)
		}
	}
	// every larger size is represented by a 4096-element allocation; the size itself stays symbolic in the
	// path condition (so that allocation accounting and later comparisons still range over all large values)
	rep := BV(t.W, 4096)
	p.note("bound: symbolic allocation sizes are explored as 0,1,2,3,4 and one representative (4096 elements) for every larger size")
	return rep
}
