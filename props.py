# Per-property check configuration for ./check (entries = harness entry functions in /verif/harness).
PROPS = {
    "C01": {
        "quick": {"entries": ["H_C01_Step"]},
        "thorough": {"entries": ["H_C01_Step"]},
        "covers": {"H_C01_Step": ["c01.older", "c01.equal", "c01.newer"]},
        "bounds": {"names": 3, "meta_len": "0..1", "steps": "1 (inductive from an arbitrary state satisfying the representation invariant)"},
        "outside": ["metrics", "msgpack bytes (token model)", "accusations at incarnation 2^32-1 about the local node (excluded by C02's statement)"],
        "assumptions": ["representation invariant: Suspect record <=> suspicion timer exists; local record Alive with Incarnation == m.incarnation"],
    },
    "C11": {
        "quick": {"entries": ["H_C11_CompoundRoundTrip", "H_C11_DecodeHostile"]},
        "thorough": {"entries": ["H_C11_CompoundRoundTrip", "H_C11_DecodeHostile"]},
        "covers": {"H_C11_CompoundRoundTrip": ["c11.rt.done"], "H_C11_DecodeHostile": ["c11.hostile.ok", "c11.hostile.err"]},
        "bounds": {"parts": "0..3", "part_len": "0..3", "hostile_len": "0..8"},
        "outside": [],
        "assumptions": [],
    },
    "C16": {
        "quick": {"entries": ["H_C16_PacketRoundTrip"]},
        "thorough": {"entries": ["H_C16_PacketRoundTrip"]},
        "covers": {"H_C16_PacketRoundTrip": ["c16.pkt.roundtrip"]},
        "bounds": {"label_len": "{1,2,16,254,255}", "payload_len": "0..3"},
    },
}

NOT_APPLICABLE = {
    "C05": "probabilistic whole-cluster liveness over arbitrary fault histories; no bounded symbolic encoding of the real code decides it and the order-insensitivity step lemma is false for memberlist (DESIGN.md §4 C05)",
}
LEVEL_TEXT = {}
