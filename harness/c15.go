package memberlist

import (
	"net"
	"time"
)

func init() {
	vRegister("H_C15_Packets", H_C15_Packets)
	vRegister("H_C15_Streams", H_C15_Streams)
	vRegister("H_C15_KeyInstalledLater", H_C15_KeyInstalledLater)
	vRegister("H_C15_SecretKeyConfig", H_C15_SecretKeyConfig)
}

// vCryptoFix: encryption enforced, keyring mid-rotation (new primary first, old key still installed).
func vCryptoFix(name string, labelLens ...int) (*vFix, []byte, string) {
	if len(labelLens) == 0 {
		labelLens = []int{0, 1}
	}
	conf := vBaseConfig()
	conf.Name = name
	newK, oldK := vBytes(16), vBytes(16)
	vAssume(!vEqBytes(newK, oldK))
	kr, err := NewKeyring([][]byte{oldK}, oldK)
	vAssert(err == nil, "c15.keyring")
	if vPick(2) == 1 {
		vAssert(kr.AddKey(newK) == nil && kr.UseKey(newK) == nil, "c15.rotate")
	} else {
		newK = oldK
	}
	conf.Keyring = kr
	conf.Label = string(vBytes(labelLens[vPick(len(labelLens))]))
	conf.EnableCompression = vPick(2) == 1
	if vPick(2) == 1 {
		conf.ProtocolVersion = 1 // encryption version 0 (padded)
	}
	f := vNewML(conf)
	f.del = &vDelegateRec{}
	conf.Delegate = f.del
	return f, newK, conf.Label
}

func (f *vFix) vAllPacketsSealed(key []byte, label string, id string) {
	for _, pkt := range f.tr.packets {
		lo := labelOverhead(label)
		vAssert(len(pkt) >= lo, id+".has-label-header")
		if len(pkt) < lo {
			continue
		}
		if lo > 0 {
			vAssert(vEqBytes(pkt[:lo], makeLabelHeader(label, nil)), id+".label-header")
		}
		vAssert(vIsSealed(pkt[lo:], key, []byte(label)), id+".sealed-under-primary")
	}
}

// C15 packet side: whatever API produces a packet, the base transport only ever sees label header + ciphertext
// sealed under the current primary key with the label as associated data.
func H_C15_Packets() {
	f, key, label := vCryptoFix(vSelf)
	m := f.m
	f.vAddSelf(3, vBytes(1))
	peer := f.vAddConcreteAlive(vPeerA, 2)
	if vPick(2) == 1 {
		peer.PMax = 2 // no CRC header
	}
	m.nodeMap["10.0.0.2"] = peer // lets rawSendMsgPacket find the node by bare address too
	to := Address{Addr: "10.0.0.2:7946", Name: vPeerA}
	from := vAddr("10.0.0.2:7946")
	// something queued for piggybacking
	m.encodeBroadcastNotify(vPeerB, suspectMsg, &suspect{Incarnation: 1, Node: vPeerB, From: vSelf}, nil)
	f.del.bcast = [][]byte{vBytes(2)}
	api := vPick(10)
	switch api {
	case 9:
		// a whole failed probe of a suspect member: compound ping+suspect, indirect ping, TCP fallback ping
		conf := m.config
		conf.IndirectChecks = 1
		conf.ProbeTimeout, conf.ProbeInterval = 100*time.Millisecond, 300*time.Millisecond
		helper := f.vAddConcreteAlive(vPeerB, 3)
		helper.PMax = 4
		peer.State = []NodeStateType{StateAlive, StateSuspect}[vPick(2)]
		tcp := &vConn{}
		f.tr.conn = tcp
		node := *peer
		m.probeNode(&node)
		vAdvance(time.Second)
		if len(tcp.out) > 0 {
			vStreamSealed(tcp.out, key, label, label, "c15.pkt.tcp-fallback")
		}
	case 0:
		vAssert(m.rawSendMsgPacket(to, nil, append([]byte{byte(userMsg)}, vBytes(3)...)) == nil, "c15.pkt.raw")
	case 1:
		vAssert(m.sendMsg(to, append([]byte{byte(userMsg)}, vBytes(3)...)) == nil, "c15.pkt.sendmsg")
	case 2:
		vAssert(m.encodeAndSendMsg(to, pingMsg, &ping{SeqNo: vU32(), Node: vPeerA}) == nil, "c15.pkt.ping")
	case 3:
		vAssert(m.SendBestEffort(&peer.Node, vBytes(3)) == nil, "c15.pkt.besteffort")
	case 4:
		vAssert(m.SendToAddress(to, vBytes(3)) == nil, "c15.pkt.toaddress")
	case 5:
		m.gossip()
	case 6:
		buf, _ := encode(pingMsg, &ping{SeqNo: vU32(), Node: vSelf, SourceAddr: []byte{10, 0, 0, 2}, SourcePort: 7946, SourceNode: vPeerA}, false)
		m.handlePing(buf.Bytes()[1:], from)
	case 7:
		buf, _ := encode(indirectPingMsg, &indirectPingReq{SeqNo: vU32(), Target: []byte{10, 0, 0, 3}, Port: 7946, Node: vPeerB, Nack: vBool(), SourceAddr: []byte{10, 0, 0, 2}, SourcePort: 7946, SourceNode: vPeerA}, false)
		m.handleIndirectPing(buf.Bytes()[1:], from)
		vAdvance(2 * time.Second) // let the nack timer and the handler reaper run
	case 8:
		// a relayed ack: the indirect prober forwards the target's ack to the requester
		buf, _ := encode(indirectPingMsg, &indirectPingReq{SeqNo: 77, Target: []byte{10, 0, 0, 3}, Port: 7946, Node: vPeerB, Nack: true, SourceAddr: []byte{10, 0, 0, 2}, SourcePort: 7946, SourceNode: vPeerA}, false)
		m.handleIndirectPing(buf.Bytes()[1:], from)
		m.invokeAckHandler(ackResp{SeqNo: m.sequenceNum}, time.Time{})
		vAdvance(2 * time.Second)
	}
	vAssert(len(f.tr.packets) >= 1, "c15.pkt.something-sent")
	f.vAllPacketsSealed(key, label, "c15.pkt")
	vCover("c15.pkt")
}

// vStreamSealed: out (after the label header) is a sequence of [encryptMsg][len32][sealed body] envelopes.
func vStreamSealed(out []byte, key []byte, hdrLabel, label string, id string) {
	lo := labelOverhead(hdrLabel)
	if lo > 0 && len(out) >= lo {
		vAssert(vEqBytes(out[:lo], makeLabelHeader(hdrLabel, nil)), id+".label-header")
		out = out[lo:]
	}
	for guard := 0; len(out) > 0 && guard < 4; guard++ {
		vAssert(len(out) >= 5 && out[0] == byte(encryptMsg), id+".envelope")
		if len(out) < 5 || out[0] != byte(encryptMsg) {
			return
		}
		n := int(out[1])<<24 | int(out[2])<<16 | int(out[3])<<8 | int(out[4])
		vAssert(n <= len(out)-5, id+".envelope-length")
		if n > len(out)-5 {
			return
		}
		aad := append(append([]byte(nil), out[:5]...), []byte(label)...)
		vAssert(vIsSealed(out[5:5+n], key, aad), id+".sealed-under-primary")
		out = out[5+n:]
	}
}

// C15 stream side: every byte written to a stream is label header + encrypted envelopes, including error replies.
func H_C15_Streams() {
	// label lengths up to the legal maximum: the associated data is frame header ++ label, 5 bytes longer
	f, key, label := vCryptoFix(vSelf, 0, 1, 250, 251, 255)
	m := f.m
	f.vAddSelf(3, vBytes(1))
	f.vAddConcreteAlive(vPeerA, 2)
	f.del.localState = vBytes(2)
	to := Address{Addr: "10.0.0.2:7946", Name: vPeerA}
	api := vPick(6)
	out := &vConn{}
	inboundLabel := ""
	switch api {
	case 0:
		f.tr.conn = out
		vAssert(m.sendUserMsg(to, vBytes(3)) == nil, "c15.str.user")
		inboundLabel = label
	case 1:
		f.tr.conn = out
		_ = m.pushPullNode(to, vBool()) // the reply never comes: only what we sent matters
		inboundLabel = label
	case 2:
		f.tr.conn = out
		_, _ = m.sendPingAndWaitForAck(to, ping{SeqNo: vU32(), Node: vPeerA}, vNow().Add(time.Second))
		inboundLabel = label
	case 3:
		// inbound garbage: the error reply must be encrypted too
		out.in = append(makeLabelHeader(label, nil), vBytes(3)...)
		if label == "" {
			out.in = vBytes(3)
		}
		m.handleConn(out)
	case 4, 5:
		// inbound genuine ping / push-pull from a peer with the same configuration: ack / local state reply
		peer, _, _ := vPeerOf(f, label)
		pc := &vConn{}
		peer.tr.conn = pc
		if api == 4 {
			_, _ = peer.m.sendPingAndWaitForAck(Address{Addr: "10.0.0.1:7946", Name: vSelf}, ping{SeqNo: vU32(), Node: vSelf}, vNow().Add(time.Second))
		} else {
			_ = peer.m.pushPullNode(Address{Addr: "10.0.0.1:7946", Name: vSelf}, false)
		}
		out.in = pc.out
		m.handleConn(out)
		vAssert(len(out.out) > 0, "c15.str.replied")
	}
	if len(out.out) > 0 {
		// replies on an inbound stream carry no label header of their own, but the label is still authenticated
		vStreamSealed(out.out, key, inboundLabel, label, "c15.str")
		vCover("c15.str.wrote")
	} else {
		vCover("c15.str.silent")
	}
}

// vPeerOf builds a second node sharing f's keyring and label.
func vPeerOf(f *vFix, label string) (*vFix, []byte, string) {
	conf := vBaseConfig()
	conf.Name = vPeerA
	conf.Keyring = f.m.config.Keyring
	conf.Label = label
	conf.EnableCompression = f.m.config.EnableCompression
	conf.ProtocolVersion = f.m.config.ProtocolVersion
	p := vNewML(conf)
	p.vAddSelfNamed(vPeerA)
	return p, nil, label
}

// C15 over a history: a node created with an empty keyring may talk in clear; from the moment a key is
// installed every packet and stream is sealed under it, and a later primary change is followed at once.
func H_C15_KeyInstalledLater() {
	conf := vBaseConfig()
	kr, err := NewKeyring(nil, nil)
	vAssert(err == nil, "c15.later.keyring")
	conf.Keyring = kr
	conf.Label = string(vBytes(vPick(2)))
	f := vNewML(conf)
	m := f.m
	f.vAddSelf(3, nil)
	peer := f.vAddConcreteAlive(vPeerA, 2)
	peer.PMax = 2
	to := Address{Addr: "10.0.0.2:7946", Name: vPeerA}
	// traffic before any key exists
	if vPick(2) == 1 {
		vAssert(m.SendBestEffort(&peer.Node, vBytes(2)) == nil, "c15.later.clear-send")
		c0 := &vConn{}
		f.tr.conn = c0
		vAssert(m.sendUserMsg(to, vBytes(2)) == nil, "c15.later.clear-stream")
	}
	k1, k2 := vBytes(16), vBytes(16)
	vAssume(!vEqBytes(k1, k2))
	vAssert(kr.AddKey(k1) == nil, "c15.later.addkey")
	f.tr.packets = nil
	vAssert(m.SendBestEffort(&peer.Node, vBytes(2)) == nil, "c15.later.send")
	f.vAllPacketsSealed(k1, conf.Label, "c15.later.pkt")
	c1 := &vConn{}
	f.tr.conn = c1
	vAssert(m.sendUserMsg(to, vBytes(2)) == nil, "c15.later.stream")
	vStreamSealed(c1.out, k1, conf.Label, conf.Label, "c15.later.str")
	// rotation: the new primary is used from the next message on
	vAssert(kr.AddKey(k2) == nil && kr.UseKey(k2) == nil, "c15.later.rotate")
	f.tr.packets = nil
	vAssert(m.SendBestEffort(&peer.Node, vBytes(2)) == nil, "c15.later.send2")
	f.vAllPacketsSealed(k2, conf.Label, "c15.later.pkt2")
	vCover("c15.later")
}

// C15 through the real constructor: a node configured with Config.SecretKey (with or without a caller-supplied
// keyring) seals under that key; after a runtime rotation of the keyring's primary, packets and streams follow
// the new primary at once, whatever the static configuration said.
func H_C15_SecretKeyConfig() {
	conf := vBaseConfig()
	conf.Logger = vLogger()
	conf.Label = string(vBytes(vPick(2)))
	k0, k1, k2 := vBytes(16), vBytes(16), vBytes(16)
	vAssume(!vEqBytes(k1, k2) && !vEqBytes(k0, k1) && !vEqBytes(k0, k2))
	conf.SecretKey = k1
	if vPick(2) == 1 {
		kr, err := NewKeyring([][]byte{k0}, k0)
		vAssert(err == nil, "c15.cfg.keyring")
		conf.Keyring = kr
	}
	rec := &vTransport{packetCh: make(chan *Packet, 1), streamCh: make(chan net.Conn, 1)}
	conf.Transport = rec
	m, err := newMemberlist(conf)
	vAssert(err == nil, "c15.cfg.created")
	if err != nil {
		return
	}
	defer m.Shutdown()
	f := &vFix{m: m, tr: rec}
	to := Address{Addr: "10.0.0.2:7946", Name: vPeerA}
	peer := &Node{Name: vPeerA, Addr: net.IP{10, 0, 0, 2}, Port: 7946, PMax: 2}
	key := k1
	if vPick(2) == 1 {
		vAssert(conf.Keyring.AddKey(k2) == nil && conf.Keyring.UseKey(k2) == nil, "c15.cfg.rotate")
		key = k2
	}
	vAssert(m.SendBestEffort(peer, vBytes(2)) == nil, "c15.cfg.send")
	f.vAllPacketsSealed(key, conf.Label, "c15.cfg.pkt")
	c := &vConn{}
	rec.conn = c
	if vPick(2) == 0 {
		vAssert(m.sendUserMsg(to, vBytes(2)) == nil, "c15.cfg.stream")
	} else {
		_ = m.pushPullNode(to, false)
	}
	vAssert(len(c.out) > 0, "c15.cfg.stream-written")
	vStreamSealed(c.out, key, conf.Label, conf.Label, "c15.cfg.str")
	vCover("c15.cfg")
}

// C15 across payload sizes: user payloads of any size up to the packet / a few KiB on streams leave sealed. (Sizes
// at which the send buffer has to grow are where in-place sealing can leave plaintext behind.)
func H_C15_Sizes() {
	vUnwind(20000)
	f, key, label := vCryptoFix(vSelf)
	m := f.m
	f.vAddSelf(3, vBytes(1))
	peer := f.vAddConcreteAlive(vPeerA, 2)
	if vPick(2) == 1 {
		peer.PMax = 2
	}
	to := Address{Addr: "10.0.0.2:7946", Name: vPeerA}
	if vPick(2) == 0 {
		n := vSize(1, 1300)
		vAssert(m.SendBestEffort(&peer.Node, vNoise(n)) == nil, "c15.size.pkt-send")
		vAssert(len(f.tr.packets) == 1, "c15.size.pkt-sent")
		f.vAllPacketsSealed(key, label, "c15.size.pkt")
		vCover("c15.size.pkt")
	} else {
		n := vSize(1, 4096)
		out := &vConn{}
		f.tr.conn = out
		vAssert(m.sendUserMsg(to, vNoise(n)) == nil, "c15.size.str-send")
		vStreamSealed(out.out, key, label, label, "c15.size.str")
		vCover("c15.size.str")
	}
}

func init() { vRegister("H_C15_Sizes", H_C15_Sizes) }

// vNoise: n concrete bytes that LZW cannot shrink much (so that the size on the wire follows n natively as well)
func vNoise(n int) []byte {
	b := make([]byte, n)
	x := uint32(2463534242)
	for i := range b {
		x ^= x << 13
		x ^= x >> 17
		x ^= x << 5
		b[i] = byte(x >> 11)
	}
	return b
}
