package memberlist

import (
	"net"
	"time"
)

func init() {
	vRegister("H_C18_Admission", H_C18_Admission)
}

// independent mask-and-compare rule for the two configured networks 10.1.0.0/16 and fd00::/8
func vInNet(a []byte, withV6 bool) bool {
	switch len(a) {
	case 4:
		return vAnd(a[0] == 10, a[1] == 1)
	case 16:
		mapped := true
		for i := 0; i < 10; i++ {
			mapped = vAnd(mapped, a[i] == 0)
		}
		mapped = vAnd(mapped, vAnd(a[10] == 0xff, a[11] == 0xff))
		v4 := vAnd(mapped, vAnd(a[12] == 10, a[13] == 1))
		if withV6 {
			return vOr(v4, vAnd(!mapped, a[0] == 0xfd))
		}
		return v4
	}
	return false
}

// C18: with an allowlist configured no disallowed address is admitted, adopted or announced.
func H_C18_Admission() {
	conf := vBaseConfig()
	conf.DeadNodeReclaimTime = time.Duration(vRange(0, 1<<44))
	withV6 := vPick(2) == 1
	conf.CIDRsAllowed = []net.IPNet{{IP: net.IP{10, 1, 0, 0}, Mask: net.CIDRMask(16, 32)}}
	if withV6 {
		v6 := make(net.IP, 16)
		v6[0] = 0xfd
		conf.CIDRsAllowed = append(conf.CIDRsAllowed, net.IPNet{IP: v6, Mask: net.CIDRMask(8, 128)})
	}
	f := vNewML(conf)
	m := f.m
	f.alive = &vAliveRec{}
	conf.Alive = f.alive
	// the claim is about a peer (absent or present in any state) or about the local node's own name while the
	// node has not entered its table yet (the window between starting the listeners and the first self-announcement)
	subj := vPeerA
	switch vPick(3) {
	case 0:
		f.vAddSelf(vU32(), nil)
	case 1:
		f.vAddSelf(vU32(), nil)
		ns := f.vAddNode(vPeerA, 0)
		vAssume(vInNet(ns.Addr, withV6)) // invariant: every admitted address is allowed
	case 2:
		subj = vSelf
	}
	pre := f.vSnapshot(subj)
	alen := []int{4, 16, 5, 0}[vPick(4)]
	a := alive{Incarnation: vU32(), Node: subj, Addr: vBytes(alen), Port: vU16(), Meta: vBytes(vPick(2)), Vsn: []uint8{1, 5, 2, 0, 0, 0}}
	if alen == 0 {
		a.Addr = nil
	}
	carrier := vPick(8)
	srcAllowed := true
	switch carrier {
	case 0, 1, 2, 4, 5, 6, 7:
		buf, err := encode(aliveMsg, &a, false)
		vAssert(err == nil, "c18.encode")
		from := vAddr("10.1.0.9:7946")
		switch carrier {
		case 1:
			from, srcAllowed = vAddr("192.168.1.1:7946"), false
		case 2:
			from, srcAllowed = vAddr("[fe80::1]:7946"), false
		case 4:
			from = vAddr("[::ffff:10.1.0.9]:7946") // IPv4-mapped form of an allowed source
		case 5:
			from, srcAllowed = vAddr("[fd00::5]:7946"), withV6
		case 6:
			from = vAddr("pipe") // in-process transports are exempt from the source check
		case 7:
			from, srcAllowed = vAddr("not-an-address"), false
		}
		m.handleAlive(buf.Bytes()[1:], from)
	case 3:
		m.mergeState([]pushNodeState{{Name: subj, Addr: a.Addr, Port: a.Port, Meta: a.Meta, Incarnation: a.Incarnation, State: StateAlive, Vsn: a.Vsn}})
	}
	post := f.vSnapshot(subj)
	if !srcAllowed {
		vAssert(f.vSameRecord(subj, pre), "c18.bad-source.unchanged")
		vAssert(len(f.ev.log) == 0, "c18.bad-source.no-event")
		vAssert(f.alive.calls == 0, "c18.bad-source.not-processed")
		vAssert(post.present == pre.present, "c18.bad-source.not-admitted")
		vCover("c18.bad-source")
		return
	}
	if post.present {
		changed := vOr(!pre.present, !vEqBytes(post.addr, pre.addr))
		vAssert(vImp(changed, vInNet(post.addr, withV6)), "c18.admitted-address-allowed")
		vAssert(vInNet(post.addr, withV6), "c18.record-address-allowed")
	}
	for _, e := range f.ev.log {
		vAssert(vInNet(e.addr, withV6), "c18.event-address-allowed")
	}
	if !vInNet(a.Addr, withV6) {
		vAssert(f.vSameRecord(subj, pre), "c18.disallowed-claim.unchanged")
		vAssert(len(f.ev.log) == 0, "c18.disallowed-claim.no-event")
		vAssert(!f.vIsMember(subj) || vIsMemberState(pre.present, pre.state), "c18.disallowed-claim.not-listed")
		vCover("c18.disallowed-claim")
		if subj == vSelf {
			vCover("c18.disallowed-claim.own-name")
		}
	} else {
		vCover("c18.allowed-claim")
	}
}

// C18, the allowlist as applications build it: ParseCIDRs over a list that may contain malformed entries (its
// documented contract: the entries that parse are returned together with the error). Every well-formed entry stays
// enforced - a claim from outside all of them is not admitted - whether or not the caller looks at the error.
func H_C18_ParsedAllowlist() {
	pool := []string{"10.1.0.0/16", " 10.1.0.0/16 ", "fd00::/8", "10.20.0.0/33", "10.1.0.0", "", "300.1.0.0/16"}
	valid := []bool{true, true, true, false, false, false, false}
	n := 1 + vPick(3)
	var in []string
	want, bad := 0, 0
	for i := 0; i < n; i++ {
		k := vPick(len(pool))
		in = append(in, pool[k])
		if valid[k] {
			want++
		} else {
			bad++
		}
	}
	nets, err := ParseCIDRs(in)
	vAssert(len(nets) == want, "c18.parse.every-wellformed-entry-kept")
	vAssert((err != nil) == (bad > 0), "c18.parse.error-iff-malformed-entry")
	conf := vBaseConfig()
	conf.CIDRsAllowed = nets
	f := vNewML(conf)
	f.vAddSelf(3, nil)
	outsider := []byte{10, 2, vU8(), vU8()}
	a := alive{Incarnation: vU32(), Node: vPeerA, Addr: outsider, Port: 7946, Vsn: conf.BuildVsnArray()}
	f.m.aliveNode(&a, nil, false)
	if want > 0 {
		vAssert(conf.IPMustBeChecked(), "c18.parse.allowlist-in-force")
		vAssert(!f.vIsMember(vPeerA), "c18.parse.outsider-not-admitted")
		vAssert(len(f.ev.log) == 0, "c18.parse.outsider-not-announced")
		vCover("c18.parse.enforced")
	} else {
		vCover("c18.parse.none-valid")
	}
}

func init() { vRegister("H_C18_ParsedAllowlist", H_C18_ParsedAllowlist) }
